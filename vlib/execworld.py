"""EXEC driver: plays a command script against the real Executor while an independent
model (M1, M3, M4, M5, M6) is advanced in lock-step; every difference between what the
real pools show after a tick and what the model allows is recorded as a *problem*
tagged with the properties it refutes.

A case (JSON-able):
  {"world": {"pools": n, "cpus": c, "ram": r, "tps": t, "multi": bool, "overcommit": bool},
   "pipelines": [pipeline spec...],
   "steps": [{"sus": [{"pool": p, "c": ordinal-or-string}],
              "asg": [{"pool": p, "cpu": x, "ram": y, "ops": [[pipeline idx, op idx]...], "prio": optional}]}...],
   "drain": max idle ticks appended after the script}
"""
import itertools

from . import sut
from .model import (Seg, container_ticks, suspend_tick_candidates, near, check_pool_kills, ASSIGNABLE, ALLOWED)

ANY = "ANY"


class Problem:
    __slots__ = ("tags", "kind", "msg", "step")

    def __init__(self, tags, kind, msg, step):
        self.tags, self.kind, self.msg, self.step = tags, kind, msg, step

    def __repr__(self):
        return f"[{','.join(self.tags)}] {self.kind} @step {self.step}: {self.msg}"


class MC:
    """Model container."""

    def __init__(self, ordinal, pool, cpu, ram, ops, keys, ticks, prio):
        self.ordinal = ordinal
        self.pool = pool
        self.cpu = cpu
        self.ram = ram
        self.ops = ops          # real operator objects (identity only)
        self.keys = keys        # (pipeline idx, op idx)
        self.ticks = ticks      # model trace (list of Tick)
        self.prio = prio
        self.j = 0              # executor ticks run
        self.ncomp = 0          # completed operators
        self.status = "active"  # active | suspending | suspended | ok | failed
        self.sus_left = None
        self.sus_total = None
        self.cid = None         # real container id, learned after creation
        self.real = None
        self.born = None
        self.usage = 0.0
        self.boundary = False   # sits right after a completed non-final operator
        self.end_step = None


class Ambiguous(Exception):
    pass


_LETTER = {"pending": "P", "assigned": "A", "running": "R", "completed": "C", "failed": "F", "suspending": "S"}


class World:
    def __init__(self, case, choices=()):
        w = case["world"]
        self.case = case
        self.tps = w["tps"]
        self.npools = w["pools"]
        self.cpus = w["cpus"]
        self.ram = w["ram"]
        self.multi = w.get("multi", True)
        self.overcommit = w.get("overcommit", False)
        self.choices = list(choices)
        self.choice_pos = 0
        self.n_amb = 0
        self.problems = []
        self.step_no = -1
        self.ended = None            # reason the case ended early
        self.events = {}
        self.ex = sut.Executor(num_pools=self.npools, cpus_per_pool=self.cpus, ram_gb_per_pool=self.ram,
                               ticks_per_second=self.tps, allow_memory_overcommit=self.overcommit,
                               multi_operator_containers=self.multi)
        self.pipes = []
        self.ops = []                # ops[pi][oi] real operator
        self.specs = []
        for spec in case["pipelines"]:
            p, ops = sut.build_pipeline(spec)
            p.runtime_status()
            self.pipes.append(p)
            self.ops.append(ops)
            self.specs.append(spec)
        # model state
        self.mstate = {}             # (pi, oi) -> state
        for pi, spec in enumerate(self.specs):
            for oi in range(len(spec["ops"])):
                self.mstate[(pi, oi)] = "pending"
        self.free_cpu = [self.cpus] * self.npools
        self.free_ram = [self.ram] * self.npools
        self.active = [[] for _ in range(self.npools)]
        self.suspending = [[] for _ in range(self.npools)]
        self.suspended = [[] for _ in range(self.npools)]
        self.containers = []         # all MC in creation order
        self.n_assign = 0
        self.n_ok = 0
        self.n_fail = 0
        self.n_susp = 0
        self.results_seen = {}       # cid -> count
        self.trace = []              # abbreviated observations for evidence samples
        self.log = sut.TransitionLog()
        self.log_pos = 0
        self.op_hist = {}          # id(operator) -> compressed accepted-transition string (evidence: multi-step life cycles)
        self.step_keys = []
        self.step_results_expected = []

    # ------------------------------------------------------------------ helpers
    def ev(self, name, n=1):
        self.events[name] = self.events.get(name, 0) + n

    def problem(self, tags, kind, msg):
        self.problems.append(Problem(tuple(tags), kind, msg, self.step_no))

    def choose(self, cands):
        if len(cands) == 1:
            return cands[0]
        self.n_amb += 1
        c = self.choices[self.choice_pos] if self.choice_pos < len(self.choices) else 0
        self.choice_pos += 1
        return cands[c % len(cands)]

    def model_ticks(self, keys, cpu):
        ops = [[Seg.of(s) for s in self.specs[pi]["ops"][oi]["segs"]] for pi, oi in keys]
        # ambiguity inside the trace is resolved through the same choice vector
        probe, namb = container_ticks(ops, cpu, self.tps)
        if namb == 0:
            return probe
        ch = []
        for _ in range(namb):
            self.n_amb += 1
            ch.append(self.choices[self.choice_pos] if self.choice_pos < len(self.choices) else 0)
            self.choice_pos += 1
        ticks, _ = container_ticks(ops, cpu, self.tps, ch)
        return ticks

    def find_mc(self, ref):
        if isinstance(ref, int) and 0 <= ref < len(self.containers):
            return self.containers[ref]
        return None

    def real_cid(self, ref):
        mc = self.find_mc(ref)
        if mc is not None and mc.cid is not None:
            return mc.cid
        return f"c-unknown-{ref}"

    # ------------------------------------------------------------------ snapshots
    def pool_snapshot(self, k):
        p = self.ex.pools[k]
        return (p.avail_cpu_pool, p.avail_ram_pool, [id(c) for c in p.active_containers],
                [id(c) for c in p.suspending_containers], [id(c) for c in p.suspended_containers],
                p.get_consumed_ram_gb())

    # ------------------------------------------------------------------ admissibility (model)
    def predict_reject(self, step):
        """First reason the real executor must refuse this step, or None.
        Returns (reason, pool, tags)."""
        for s in step.get("sus", []):
            if not (isinstance(s["pool"], int) and not isinstance(s["pool"], bool) and 0 <= s["pool"] < self.npools):
                return ("unknown-pool", None, ("C09",))
        for a in step.get("asg", []):
            if not (isinstance(a["pool"], int) and not isinstance(a["pool"], bool) and 0 <= a["pool"] < self.npools):
                return ("unknown-pool", None, ("C09",))
        for k in range(self.npools):
            sus = [s for s in step.get("sus", []) if s["pool"] == k]
            seen = set()
            for s in sus:
                mc = self.find_mc(s["c"])
                if mc is None or mc.status != "active" or mc.pool != k or mc.cid is None:
                    return ("suspend-not-running", k, ("C10",))
                if not mc.boundary:
                    return ("suspend-not-at-boundary", k, ("C10",))
                if mc.ordinal in seen:
                    return ("suspend-duplicate", k, ("C10",))
                seen.add(mc.ordinal)
            asg = [a for a in step.get("asg", []) if a["pool"] == k]
            if asg:
                totc = 0
                for a in asg:
                    totc += a["cpu"]
                if totc > self.free_cpu[k] and not near(totc, self.free_cpu[k]):
                    return ("oversell-cpu", k, ("C03",))
                if totc != self.free_cpu[k] and near(totc, self.free_cpu[k], 1e-12) and not float(totc).is_integer():
                    self.soft_reject = ("oversell-cpu", k, ("C03",))
                if not self.overcommit:
                    tot = 0.0
                    for a in asg:
                        tot += a["ram"]             # plain left-to-right accumulation (the built-in sum() compensates)
                    whole = all(float(a["ram"]).is_integer() for a in asg) and float(self.free_ram[k]).is_integer()
                    if tot > self.free_ram[k] and not near(tot, self.free_ram[k], 1e-12):
                        return ("oversell-ram", k, ("C03",))
                    if (near(tot, self.free_ram[k], 1e-12) and not (tot == self.free_ram[k] and whole)) \
                            or (tot > self.free_ram[k]):
                        # the request is within float rounding of the free amount (a ledger kept by += / -= of
                        # fractional sizes need not equal one that is recomputed or snapped to capacity when the
                        # pool is idle): either verdict is fine.  Whole numbers are exact: no freedom there.
                        self.soft_reject = ("oversell-ram", k, ("C03",))
                for a in asg:
                    if not self.multi and len(a["ops"]) != 1:
                        return ("op-count", k, ("C08",))
        return None

    # ------------------------------------------------------------------ main loop
    def run(self, driver=None, max_steps=200):
        """Play the case's script; with a driver, the script is produced step by step
        from the model's view of the world and recorded into the case (so that the
        finished case replays without the driver)."""
        with self.log:
            if driver is not None:
                self.case["steps"] = []
                for i in range(max_steps):
                    step = driver(self, i)
                    if step is None:
                        break
                    self.case["steps"].append(step)
                    self.step_no = i
                    self.do_step(step)
                    if self.ended:
                        break
            else:
                for i, step in enumerate(list(self.case["steps"])):
                    self.step_no = i
                    self.do_step(step)
                    if self.ended:
                        break
            if not self.ended:
                drain = self.case.get("drain", 0)
                n = 0
                while n < drain and any(self.active[k] or self.suspending[k] for k in range(self.npools)):
                    self.step_no += 1
                    self.do_step({})
                    n += 1
                    if self.ended:
                        break
                if not self.ended and n >= drain and any(self.active[k] or self.suspending[k] for k in range(self.npools)):
                    self.ev("drain_exhausted")
            self.final_checks()
        return self.problems

    # ------------------------------------------------------------------ one step
    def do_step(self, step):
        sus_cmds = step.get("sus", [])
        asg_cmds = step.get("asg", [])
        self.soft_reject = None
        expect = self.predict_reject(step)
        if self.step_no % 2 == 1:
            # what a reporting client does between two ticks: serialise pools, containers and pipelines.  Reading
            # must not change anything (the comparison with the model after this tick would show it).
            try:
                for p_ in self.ex.pools:
                    p_.to_dict()
                    for c_ in list(p_.active_containers) + list(p_.suspending_containers):
                        c_.to_dict()
                for pl_ in self.pipes[:20]:
                    pl_.to_dict()
                self.ev("state_serialised_between_ticks")
            except Exception as e:
                self.problem((ANY,), "serialisation-raised", f"to_dict() raised {type(e).__name__}: {e}")
        before = [self.pool_snapshot(k) for k in range(self.npools)]

        # --- build Assignment objects (construction moves operators to ASSIGNED)
        real_asg = []
        built = []
        self.step_keys = [tuple(k) for a in asg_cmds for k in a["ops"]]
        for s_ in sus_cmds:
            mc_ = self.find_mc(s_["c"])
            if mc_ is not None:
                self.step_keys.extend(mc_.keys)
        for a in asg_cmds:
            keys = [tuple(k) for k in a["ops"]]
            ok_states = all(self.mstate.get(k) in ASSIGNABLE for k in keys) and len(set(keys)) == len(keys)
            valid_args = len(keys) > 0 and a["cpu"] > 0 and a["ram"] > 0
            try:
                ops = [self.ops[pi][oi] for pi, oi in keys]
                prio = sut.Priority[a["prio"]] if a.get("prio") else (ops[0].pipeline.priority if ops else sut.Priority.QUERY)
                ra = sut.Assignment(ops=ops, cpu=a["cpu"], ram=a["ram"], priority=prio, pool_id=a["pool"],
                                    pipeline_id=ops[0].pipeline.pipeline_id if ops else "none",
                                    **self.optional_args(a))
            except Exception as e:
                self.ev("assignment_construction_refused")
                if ok_states and valid_args:
                    self.problem((ANY,), "assignment-refused", f"well-formed assignment of assignable operators {keys} refused: {e!r}")
                # model: operators before the offending one were already moved
                self.sync_model_states_from_log()
                self.ended = "construction-refused"
                return
            if not (ok_states and valid_args):
                self.problem(("C02",), "non-assignable-assigned",
                             f"assignment of operators {keys} in states {[self.mstate.get(k) for k in keys]} was constructed without error")
                self.ended = "inadmissible-accepted"
                return
            for k in keys:
                self.mstate[k] = "assigned"
            real_asg.append(ra)
            built.append((a, keys, ra))
        real_sus = [sut.Suspend(self.real_cid(s["c"]), s["pool"]) for s in sus_cmds]

        # --- dependency expectation for this tick is evaluated inside model_advance
        try:
            results = self.ex.run_one_tick(real_sus, real_asg)
            exc = None
        except Exception as e:  # the executor refuses by raising
            results = None
            exc = e
        # a consumer may keep what it was handed: the result lists of earlier ticks must still say what they said
        kept = getattr(self, "_kept_results", None)
        if kept is None:
            kept = self._kept_results = []
        for (t_, lst_, ids_) in kept:
            if [id(r) for r in lst_] != ids_:
                self.problem(("C09",), "delivered-results-changed", f"the result list delivered in tick {t_} held {len(ids_)} result(s); "
                                                                     f"looked at again in tick {self.step_no} it holds {len(lst_)} (other) ones")
                kept.clear()
                break
        if results is not None:
            kept.append((self.step_no, results, [id(r) for r in results]))
            del kept[:-6]
            if results:
                self.ev("result_lists_kept_and_rechecked")

        if exc is not None:
            self.ev("step_raised")
            if expect is not None:
                self.ev("rejected:" + expect[0])
                if step.get("_releasing"):
                    self.ev("rejected:request-for-resources-of-a-container-in-its-last-write-out-tick")
                reason, k, tags = expect
                if k is not None and reason.startswith(("oversell", "suspend")):
                    mixed = reason.startswith("oversell") and any(s["pool"] == k for s in sus_cmds)
                    if not mixed and self.pool_snapshot(k) != before[k]:
                        self.problem(tags, "reject-changed-state",
                                     f"step refused ({reason}) but pool {k} changed: {before[k]} -> {self.pool_snapshot(k)}")
                    else:
                        self.ev("reject_left_pool_unchanged")
                if reason == "unknown-pool":
                    if [self.pool_snapshot(k) for k in range(self.npools)] != before:
                        self.problem(("C09",), "reject-changed-state", "unknown pool refused but pools changed")
                self.ended = "rejected:" + reason
                return
            if self.soft_reject is not None and isinstance(exc, AssertionError):
                self.ev("rejected:float-boundary-batch")
                self.ended = "rejected:float-boundary"
                return
            # maybe a dependency violation the model predicts for this tick
            dep = self.model_advance(built, sus_cmds, observed=None, dry=True)
            if dep is None:
                # a parent whose demand is within float rounding of its limit may have been killed in this very tick
                # instead of completing: the child's start is then rightly refused
                dep = self.model_advance(built, sus_cmds, observed=None, dry=True, boundary_fails=True)
                if dep is not None:
                    self.ev("rejected:dependency-on-parent-killed-at-float-boundary")
            if dep is not None:
                self.ev("rejected:dependency")
                if step.get("_split_family"):
                    self.ev("rejected:dependency:parent-and-child-in-two-containers-of-one-batch:" + step["_split_family"])
                key = dep
                if sut.state_of(self.ops[key[0]][key[1]]) in ("running", "completed"):
                    self.problem(("C01",), "dependency-executed",
                                 f"operator {key} raised but is {sut.state_of(self.ops[key[0]][key[1]])} although a parent is unfinished")
                self.ended = "rejected:dependency"
                return
            self.problem((ANY,), "unexpected-exception", f"admissible step raised {type(exc).__name__}: {exc}")
            self.ended = "unexpected-exception"
            return

        # --- no exception
        if expect is not None:
            reason, k, tags = expect
            if step.get("_releasing"):
                tags = tuple(tags) + ("C10",)       # the allocation of a container still writing out was handed out
            if reason == "oversell-ram":
                tags = tuple(tags) + ("C04",)       # RAM handed out twice without overcommit: the memory clauses no longer have a basis
            self.problem(tags, "inadmissible-accepted", f"step should be refused ({reason}) but was executed: {step}")
            self.ended = "inadmissible-accepted"
            return
        dep = self.model_advance(built, sus_cmds, observed=results, dry=False)
        if dep is not None:
            self.problem(("C01",), "dependency-not-rejected",
                         f"operator {dep} started although a parent has not completed and no error was raised")
            self.ended = "dependency-not-rejected"
            return
        self.compare(results)

    # ------------------------------------------------------------------ model
    def optional_args(self, a):
        """The optional arguments of Assignment (labels as far as the statement goes): is_resume, the id of the
        container being 'resumed' (one that is being written out or was suspended), force_run."""
        kw = {}
        if a.get("resume"):
            kw["is_resume"] = True
            if a.get("resume_of") is not None:
                mc = self.find_mc(a["resume_of"])
                if mc is not None and mc.cid is not None:
                    kw["container_id"] = mc.cid
                    self.ev("assignments_naming_a_suspended_or_suspending_container")
        if a.get("force"):
            kw["force_run"] = True
            self.ev("assignments_with_force_run")
        return kw

    def parents_done(self, key):
        pi, oi = key
        return all(self.mstate[(pi, q)] == "completed" for q in self.specs[pi]["ops"][oi]["parents"])

    def model_advance(self, built, sus_cmds, observed, dry, boundary_fails=False):
        """Advance the model by one executor tick.  With dry=True nothing is changed and
        only a dependency violation (key of the offending operator) is looked for.
        Returns the offending key or None."""
        if dry:
            # simulate only the start-of-operator checks, in the real order
            shadow = dict(self.mstate)
            sus_ord = {s["c"] for s in sus_cmds}
            for k in range(self.npools):
                order = [mc for mc in self.active[k] if mc.ordinal not in sus_ord]
                new = []
                for a, keys, ra in built:
                    if a["pool"] == k:
                        ticks = self.model_ticks_quiet(keys, a["cpu"])
                        new.append((keys, ticks, 0, a["ram"]))
                seq = [(mc.keys, mc.ticks, mc.j, mc.ram) for mc in order] + new
                for keys, ticks, j, ram in seq:
                    if j >= len(ticks):
                        continue
                    t = ticks[j]
                    if j == 0 or ticks[j - 1].op != t.op:
                        key = keys[t.op]
                        pi, oi = key
                        if not all(shadow[(pi, q)] == "completed" for q in self.specs[pi]["ops"][oi]["parents"]):
                            return key
                    over_own = t.demand > ram and not near(t.demand, ram)
                    if boundary_fails and near(t.demand, ram):
                        over_own = True      # the other admissible outcome of a demand within rounding of the limit
                    if t.ends_op and not over_own:
                        shadow[keys[t.op]] = "completed"
            return None

        self.step_results_expected = []
        offending = None
        for k in range(self.npools):
            # 1. suspensions
            for s in [s for s in sus_cmds if s["pool"] == k]:
                mc = self.find_mc(s["c"])
                mc.status = "suspending"
                _cands = suspend_tick_candidates(mc.ram, self.tps)
                if len(_cands) > 1:
                    self.ev("write_out_length_on_float_boundary")      # floor(ram/20*tps) within rounding of an integer
                mc.sus_total = self.choose(_cands)
                mc.sus_left = mc.sus_total
                self.active[k].remove(mc)
                self.suspending[k].append(mc)
                for key in mc.keys[mc.ncomp:]:
                    self.mstate[key] = "suspending"
                self.n_susp += 1
                self.ev("suspend_accepted")
                if mc.sus_total == 1:
                    self.ev("suspend_one_tick")
            # 2. new containers
            for a, keys, ra in built:
                if a["pool"] != k:
                    continue
                ticks = self.model_ticks(keys, a["cpu"])
                mc = MC(len(self.containers), k, a["cpu"], a["ram"], ra.ops, keys, ticks, ra.priority)
                mc.born = self.step_no
                mc.assignment = ra
                self.containers.append(mc)
                self.active[k].append(mc)
                self.free_cpu[k] -= a["cpu"]
                self.free_ram[k] -= a["ram"]
                self.n_assign += 1
                self.ev("assignment_accepted")
            # 3. suspending countdown (includes the tick that carries the command)
            for mc in list(self.suspending[k]):
                mc.sus_left -= 1
                if mc.sus_left == 0:
                    mc.status = "suspended"
                    mc.end_step = self.step_no
                    self.suspending[k].remove(mc)
                    self.suspended[k].append(mc)
                    self.free_cpu[k] += mc.cpu
                    self.free_ram[k] += mc.ram
                    for key in mc.keys[mc.ncomp:]:
                        self.mstate[key] = "pending"
                    self.ev("suspension_finished")
            # 4. tick active containers in list order
            obs_failed_now = {r.container_id for r in observed if r.pool_id == k and r.error is not None}
            self.learn_ids(k, observed)
            tick_info = []
            for mc in self.active[k]:
                t = mc.ticks[mc.j]
                if mc.j == 0 or mc.ticks[mc.j - 1].op != t.op:
                    key = mc.keys[t.op]
                    if not self.parents_done(key):
                        return key
                    self.mstate[key] = "running"
                mc.boundary = False
                mc.usage = t.demand
                if t.alts and len({a > mc.ram for a in t.alts}) == 2:
                    # forced single tick of a zero-duration operator: the statement does not say which
                    # memory figure it shows, and the admissible figures disagree about the limit
                    over_own = None
                elif t.exact:
                    over_own = t.demand > mc.ram
                else:
                    over_own = None if near(t.demand, mc.ram) else t.demand > mc.ram
                finished = False
                if over_own is None:
                    # within float rounding of the container's own limit: either outcome is admissible, so the
                    # model follows what was observed instead of branching (no enumeration needed)
                    if t.ends_op:
                        # the two branches differ in whether this operator completed in this tick
                        pi_, oi_ = mc.keys[t.op]
                        over_own = sut.state_of(self.ops[pi_][oi_]) != "completed"
                    else:
                        over_own = mc.cid in obs_failed_now
                    self.ev("own_limit_float_boundary_followed_observation")
                if not over_own:
                    if t.ends_op:
                        self.mstate[mc.keys[t.op]] = "completed"
                        mc.ncomp = t.ncomp
                        if t.final:
                            finished = True
                        else:
                            mc.boundary = True
                mc.j += 1
                tick_info.append((mc, t, over_own, finished))
            # 5./6. kills and completions, validated against what was observed
            obs_failed = set()
            obs_ok = set()
            for r in observed:
                if r.pool_id == k:
                    (obs_failed if r.error is not None else obs_ok).add(r.container_id)
            conts = []
            for mc, t, over_own, finished in tick_info:
                conts.append({"id": mc.cid, "demand": mc.usage if not finished else 0.0,
                              "alloc": mc.ram if not over_own else -1.0 if False else mc.ram,
                              "finished": finished, "mc": mc, "over": over_own, "alts": t.alts})
            # individual kills are decided by the model (over_own); pool-level by the acceptor
            for c in conts:
                c["indiv"] = bool(c["over"])
            pool_problems = self.judge_kills(k, conts, obs_failed)
            for kind, msg in pool_problems:
                tags = {"finished-killed": ("C11", "C09"), "missed-individual": ("C05", "C04"),
                        "unknown-victim": ("C09",), "kill-without-overcommit": ("C04",),
                        "needless-kill": ("C11", "C04"), "zero-usage-victim": ("C11",),
                        "order": ("C11",), "overkill": ("C11",), "over-capacity": ("C04", "C11")}[kind]
                self.problem(tags, "oom-" + kind, f"pool {k}: {msg}")
            n_pl = sum(1 for c in conts if c["mc"].cid in obs_failed and c["mc"].cid is not None and not c["indiv"])
            if n_pl and any(s_["pool"] == k for s_ in sus_cmds):
                self.ev("kill_pool_level_in_a_tick_with_a_suspension")
            if n_pl > 8:
                self.ev("ticks_with_more_than_8_pool_level_kills")
            if n_pl > 1:
                self.ev("ticks_with_several_pool_level_kills")
            for c in conts:
                mc = c["mc"]
                if mc.cid in obs_failed and mc.cid is not None:
                    mc.status = "failed"
                    for key in mc.keys[mc.ncomp:]:
                        self.mstate[key] = "failed"
                    self.n_fail += 1
                    self.ev("container_failed")
                    if c["indiv"]:
                        self.ev("kill_individual")
                    else:
                        self.ev("kill_pool_level")
                elif c["finished"]:
                    mc.status = "ok"
                    self.n_ok += 1
                    self.ev("container_succeeded")
                elif c["indiv"]:
                    # model says it must die; observed survived -> already reported (missed-individual)
                    mc.status = "failed"
                    for key in mc.keys[mc.ncomp:]:
                        self.mstate[key] = "failed"
                if mc.status in ("ok", "failed"):
                    mc.end_step = self.step_no
                    mc.usage = 0.0
                    self.active[k].remove(mc)
                    self.free_cpu[k] += mc.cpu
                    self.free_ram[k] += mc.ram
                    self.step_results_expected.append((mc, mc.status))
        return offending

    def model_ticks_quiet(self, keys, cpu):
        ops = [[Seg.of(s) for s in self.specs[pi]["ops"][oi]["segs"]] for pi, oi in keys]
        ticks, _ = container_ticks(ops, cpu, self.tps)
        return ticks

    def learn_ids(self, k, observed):
        """Match new real containers of pool k to the model containers created in this step."""
        pool = self.ex.pools[k]
        new_mcs = [mc for mc in self.active[k] if mc.cid is None]
        if not new_mcs:
            return
        by_ops = {tuple(id(o) for o in mc.assignment.ops): mc for mc in new_mcs}
        found = 0
        for c in pool.active_containers:
            mc = by_ops.get(tuple(id(o) for o in c.operators))
            if mc is not None and mc.cid is None:
                mc.cid = c.container_id
                mc.real = c
                found += 1
        for r in observed:
            if r.pool_id != k:
                continue
            mc = by_ops.get(tuple(id(o) for o in r.ops))
            if mc is not None and mc.cid is None:
                mc.cid = r.container_id
                found += 1
        if found != len(new_mcs):
            self.problem(("C09",), "container-count",
                         f"pool {k}: {len(new_mcs)} assignments accepted but {found} new containers observed")
        ids = [mc.cid for mc in self.containers if mc.cid is not None]
        if len(ids) != len(set(ids)):
            self.problem(("C09",), "container-id-reused", f"container ids not unique: {ids}")

    def judge_kills(self, k, conts, obs_failed):
        # feed the clause acceptor; individual victims are forced through 'alloc'
        cc = []
        for c in conts:
            d = c["demand"]
            alloc = c["mc"].ram
            if c["indiv"]:
                # make sure the acceptor sees it as over its own limit even in the 'near' band
                d = max(d, alloc * (1 + 1e-6) + 1e-6)
            elif c["over"] is False and d > alloc:
                d = alloc
            cc.append({"id": c["mc"].cid, "demand": d, "alloc": alloc, "finished": c["finished"], "over": bool(c["indiv"])})
        return check_pool_kills(cc, self.ram, self.overcommit, obs_failed)

    # ------------------------------------------------------------------ comparison real vs model
    def sync_model_states_from_log(self):
        pass

    def compare(self, results):
        tol = 1e-9
        # results: exactly the expected endings, once each, right kind
        exp = {mc.cid: st for mc, st in self.step_results_expected}
        seen = {}
        for r in results:
            seen[r.container_id] = seen.get(r.container_id, 0) + 1
            self.results_seen[r.container_id] = self.results_seen.get(r.container_id, 0) + 1
            kind = "failed" if r.error is not None else "ok"
            if r.container_id not in exp:
                self.problem(("C09", "C05"), "result-unexpected", f"result for container {r.container_id} ({kind}) not predicted for this tick")
            elif exp[r.container_id] != kind:
                tags = ("C05", "C04", "C09") if kind == "failed" else ("C05", "C09")
                self.problem(tags, "result-wrong-kind", f"container {r.container_id}: result {kind}, model {exp[r.container_id]}")
            states = sut.states_of(r.ops)
            if kind == "ok" and any(s != "completed" for s in states):
                self.problem(("C09",), "success-with-unfinished", f"success result with operator states {states}")
            if kind == "failed":
                if not r.error:
                    self.problem(("C09",), "failure-without-error", "failure result names no error")
                i = 0
                while i < len(states) and states[i] == "completed":
                    i += 1
                if i == len(states) or any(s != "failed" for s in states[i:]):
                    self.problem(("C09", "C05"), "failure-pattern", f"failure result with operator states {states} (want completed* failed+)")
        for cid, n in seen.items():
            if n > 1:
                self.problem(("C09",), "result-duplicated", f"container {cid} reported {n} times in one tick")
        for cid, n in self.results_seen.items():
            if n > 1 and cid in seen:
                self.problem(("C09",), "result-repeated", f"container {cid} reported again in a later tick")
        for cid, st in exp.items():
            if cid not in seen:
                self.problem(("C09", "C05"), "result-missing", f"container {cid} should report {st} in this tick, no result")
        for mc in self.containers:
            if mc.status in ("suspended", "suspending") and mc.cid in seen:
                self.problem(("C10", "C09"), "result-for-suspended", f"suspended container {mc.cid} produced a result")

        for k in range(self.npools):
            p = self.ex.pools[k]
            act = list(p.active_containers)
            susp = list(p.suspending_containers)
            # conservation by direct sums (C03)
            held_cpu = sum(c.assignment.cpu for c in act + susp)
            held_ram = sum(c.assignment.ram for c in act + susp)
            if abs(p.avail_cpu_pool + held_cpu - p.max_cpu_pool) > tol * max(1, p.max_cpu_pool):
                self.problem(("C03",), "conservation-cpu", f"pool {k}: free {p.avail_cpu_pool} + held {held_cpu} != capacity {p.max_cpu_pool}")
            if abs(p.avail_ram_pool + held_ram - p.max_ram_pool) > tol * max(1, p.max_ram_pool):
                self.problem(("C03",), "conservation-ram", f"pool {k}: free {p.avail_ram_pool} + held {held_ram} != capacity {p.max_ram_pool}")
            if p.avail_cpu_pool < -tol:
                self.problem(("C03",), "negative-free-cpu", f"pool {k}: free cpu {p.avail_cpu_pool}")
            if not self.overcommit and p.avail_ram_pool < -tol * max(1, p.max_ram_pool):
                self.problem(("C03",), "negative-free-ram", f"pool {k}: free ram {p.avail_ram_pool} without overcommit")
            # ledger (C03/C10): release exactly once, in the right tick
            if abs(p.avail_cpu_pool - self.free_cpu[k]) > tol * max(1, self.cpus):
                self.problem(("C03", "C10"), "ledger-cpu", f"pool {k}: free cpu {p.avail_cpu_pool}, ledger {self.free_cpu[k]}")
            if abs(p.avail_ram_pool - self.free_ram[k]) > tol * max(1, self.ram):
                self.problem(("C03", "C10"), "ledger-ram", f"pool {k}: free ram {p.avail_ram_pool}, ledger {self.free_ram[k]}")
            # container lists
            m_act = [mc.cid for mc in self.active[k]]
            r_act = [c.container_id for c in act]
            if sorted(m_act, key=str) != sorted(r_act, key=str):
                self.problem(("C09", "C10", "C05"), "active-set", f"pool {k}: active {r_act}, model {m_act}")
            m_sus = [mc.cid for mc in self.suspending[k]]
            r_sus = [c.container_id for c in susp]
            if sorted(m_sus, key=str) != sorted(r_sus, key=str):
                self.problem(("C10",), "suspending-set", f"pool {k}: suspending {r_sus}, model {m_sus} (duration)")
            m_sd = [mc.cid for mc in self.suspended[k]]
            r_sd = [c.container_id for c in p.suspended_containers]
            if len(m_sd) > 200 and self.step_no % 256:
                m_sd, r_sd = m_sd[-50:], r_sd[-50:] if len(r_sd) == len(m_sd) else r_sd
            if sorted(m_sd, key=str) != sorted(r_sd, key=str):
                self.problem(("C10",), "suspended-set", f"pool {k}: suspended {r_sd}, model {m_sd}")
            # memory (C04/C05)
            total = 0.0
            by_cid = {mc.cid: mc for mc in self.active[k]}
            for c in act:
                u = c.get_current_memory_usage()
                total += u
                mc = by_cid.get(c.container_id)
                if mc is not None:
                    t = mc.ticks[mc.j - 1] if mc.j > 0 else None
                    okv = abs(u - mc.usage) <= 1e-6 or (t is not None and t.alts and any(abs(u - a) <= 1e-6 for a in t.alts))
                    if not okv:
                        self.problem(("C05", "C04"), "usage-mismatch", f"container {c.container_id} tick {mc.j}: uses {u}, model {mc.usage}")
                if u > c.assignment.ram and not near(u, c.assignment.ram):
                    self.problem(("C04",), "over-allocation", f"container {c.container_id} uses {u} > allocation {c.assignment.ram} after the tick")
                # suspendability flag must agree with the boundary rule (C10)
                if mc is not None and bool(c.can_suspend_container()) != bool(mc.boundary):
                    self.problem(("C10",), "boundary-flag", f"container {c.container_id}: suspendable={c.can_suspend_container()}, model boundary={mc.boundary}")
            if total > p.max_ram_pool and not near(total, p.max_ram_pool):
                self.problem(("C04", "C11"), "pool-over-capacity", f"pool {k}: running containers use {total} > capacity {p.max_ram_pool}")
            rep = p.get_consumed_ram_gb()
            if abs(rep - total) > 1e-6:
                self.problem(("C04",), "reported-usage", f"pool {k}: reports {rep} GB, running containers use {total} GB")
            # a suspending container makes no progress and keeps its memory figure frozen
            for c in susp:
                mc = next((m for m in self.suspending[k] if m.cid == c.container_id), None)
                if mc is not None and c.ticks_elapsed() != mc.j:
                    self.problem(("C10",), "progress-while-suspending", f"container {c.container_id} ran {c.ticks_elapsed()} ticks, model {mc.j}")

        # operator states (M1/M3/M6): every operator while the case is small; for big cases the operators of
        # containers that were alive in this step, the operators named in its commands, and everything every 256 steps
        if len(self.mstate) <= 600 or self.step_no % 256 == 0:
            keys = self.mstate.keys()
        else:
            keys = set(self.step_keys)
            for k in range(self.npools):
                for mc in self.active[k] + self.suspending[k]:
                    keys.update(mc.keys)
            for mc, _st in self.step_results_expected:
                keys.update(mc.keys)
            for mc in self.containers[-8:]:
                keys.update(mc.keys)
        for (pi, oi) in keys:
            st = self.mstate[(pi, oi)]
            real = sut.state_of(self.ops[pi][oi])
            if real != st:
                self.problem(("C05", "C10", "C02", "C09"), "op-state", f"operator {(pi, oi)}: {real}, model {st}")
                break
        # identity (C09)
        live = sum(len(self.active[k]) + len(self.suspending[k]) for k in range(self.npools))
        done_susp = sum(len(self.suspended[k]) for k in range(self.npools))
        if self.n_assign != self.n_ok + self.n_fail + done_susp + live:
            self.problem(("C09",), "identity", f"assignments {self.n_assign} != ok {self.n_ok} + failed {self.n_fail} + suspended {done_susp} + live {live}")
        r_live = sum(len(p.active_containers) + len(p.suspending_containers) for p in self.ex.pools)
        r_susp = sum(len(p.suspended_containers) for p in self.ex.pools)
        r_ok = self.ex.num_completed()
        if self.n_assign != r_ok + self.n_fail + r_susp + r_live:
            self.problem(("C09",), "identity-real", f"assignments {self.n_assign} != completed {r_ok} + failures {self.n_fail} + suspended {r_susp} + live {r_live}")
        self.check_translog()
        if len(self.trace) < 40:
            self.trace.append({"step": self.step_no,
                               "free": [(p.avail_cpu_pool, round(p.avail_ram_pool, 6)) for p in self.ex.pools],
                               "usage": [[round(c.get_current_memory_usage(), 6) for c in p.active_containers] for p in self.ex.pools],
                               "results": [(r.container_id, r.error) for r in results]})

    def check_translog(self):
        """M1 on the totally ordered transition log (C02) and the dependency clause (C01)."""
        evs = self.log.events
        if len(evs) > 200000 and self.log_pos >= len(evs):
            del evs[:]
            self.log_pos = 0
        while self.log_pos < len(evs):
            seq, op, frm, to, ok, msg = evs[self.log_pos]
            self.log_pos += 1
            if ok and (frm, to) not in ALLOWED:
                self.problem(("C02",), "illegal-transition", f"accepted transition {frm}->{to}")
            if ok and to == "running":
                if any(sut.state_of(par) != "completed" for par in op.parents):
                    # parents' current state is at least as advanced as at the time of the event;
                    # completed is final, so a non-completed parent now was non-completed then
                    self.problem(("C01",), "started-before-parent", "operator entered RUNNING with a parent that has not completed")
            if ok:
                h = self.op_hist.get(id(op), "")
                if len(h) < 64:
                    self.op_hist[id(op)] = h + _LETTER.get(to, "?")
            self.ev("transitions_logged")

    def lifecycle_counts(self):
        """Evidence only: which multi-step operator life cycles this script really produced
        (faults that need fail -> retry -> suspend -> resume chains hide in the long ones)."""
        for h in self.op_hist.values():
            nf, ns = h.count("F"), h.count("S")
            if nf >= 2:
                self.ev("lifecycle:operator_failed_twice_or_more")
            if nf >= 2 and h.endswith("C"):
                self.ev("lifecycle:operator_completed_after_two_or_more_failures")
            if ns >= 2:
                self.ev("lifecycle:operator_suspended_twice_or_more")
            if nf and ns:
                self.ev("lifecycle:operator_both_failed_and_suspended")
                if "F" in h[h.index("S"):]:
                    self.ev("lifecycle:operator_failed_after_a_resume")
                if "S" in h[h.index("F"):]:
                    self.ev("lifecycle:operator_suspended_after_a_retry")
                if h.endswith("C"):
                    self.ev("lifecycle:operator_completed_after_failure_and_suspension")
        self.op_hist = {}

    def final_checks(self):
        self.check_translog()
        self.lifecycle_counts()
        for mc in self.containers:
            if mc.cid is not None and self.results_seen.get(mc.cid, 0) == 0 and mc.status in ("ok", "failed"):
                self.problem(("C09",), "ended-without-result", f"container {mc.cid} ended {mc.status} without a result")


def run_with_choices(case, max_amb=6, max_runs=96, driver_factory=None, max_steps=200):
    """Run a case; if the model met ambiguous (float-boundary) decisions and the run shows
    problems, explore the other resolutions before reporting.  The number of decisions met
    depends on earlier choices (an early OOM cuts the list short, a longer I/O phase adds a
    limit comparison), so the vectors are explored as a tree: a vector fixes the first
    len(v) decisions, later ones default to the first candidate, and every later decision
    actually met spawns a child that flips it.  Returns (world, problems, status) with status
    in 'ok', 'problems', 'skipped-ambiguous'."""
    first = None
    queue = [()]
    runs = 0
    too_many = False
    while queue and runs < max_runs:
        v = queue.pop(0)
        w = World(case, v)
        probs = w.run(driver=driver_factory(), max_steps=max_steps) if driver_factory is not None else w.run()
        runs += 1
        if first is None:
            first = (w, probs)
            if not probs or w.n_amb == 0:
                return w, probs, ("ok" if not probs else "problems")
            if w.step_no > 400:
                max_runs = min(max_runs, 6)      # big cases: a handful of alternative resolutions only
        if not probs:
            return w, [], "ok"
        if w.n_amb > max_amb:
            too_many = True
            continue
        for j in range(len(v), w.n_amb):
            queue.append(tuple(v) + (0,) * (j - len(v)) + (1,))
    if too_many or queue:
        return first[0], [], "skipped-ambiguous"
    return first[0], first[1], "problems"
