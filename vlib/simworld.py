"""SIM driver: the real run_simulator main loop with probes at its three boundaries.

P2 recording workload, P3 recording scheduler (registered through the public decorators as
``verif:<algo>``; its body calls the real init / scheduling function), P4 executor wrap
(installed on the live Executor instance in the scheduler's init), P1 transition log.
Monitors are objects with optional hooks; they observe, they never steer.
"""
import os
import traceback

from . import sut
from .sut import TransitionLog

from eudoxia.simulator import run_simulator, get_param_defaults
from eudoxia.scheduler.decorators import INIT_ALGOS, SCHEDULING_ALGOS, register_scheduler_init, register_scheduler
from eudoxia.workload import Workload, WorkloadGenerator
from eudoxia.workload.csv_io import CSVWorkloadReader
import eudoxia.__main__ as eudoxia_main

SHIPPED = ("naive", "priority", "priority-pool", "overbook")
TEMPLATE_NAME = "vtemplate"


class Monitor:
    """Base class: every hook is optional."""
    prop = None

    def begin(self, h): pass
    def attached(self, h, s): pass
    def arrivals(self, h, t, pipelines): pass
    def sched_pre(self, h, t, s, results, pipelines): pass
    def sched_post(self, h, t, s, suspensions, assignments): pass
    def exec_post(self, h, t, results): pass
    def end(self, h, stats): pass
    def raised(self, h, exc, where): pass


class CInfo:
    __slots__ = ("cid", "pool", "cpu", "ram", "ops", "prio", "born", "j", "status", "ended", "real", "first_attempt")

    def __init__(self, cid, pool, cpu, ram, ops, prio, born, real):
        self.cid, self.pool, self.cpu, self.ram, self.ops, self.prio, self.born = cid, pool, cpu, ram, ops, prio, born
        self.j = 0
        self.status = "active"
        self.ended = None
        self.real = real


class ScriptWorkload(Workload):
    """Pipelines delivered at scripted ticks."""

    def __init__(self, arrivals):
        self.by_tick = {}
        self.built = []
        for tick, specs in arrivals.items():
            lst = []
            for spec in specs:
                p, ops = sut.build_pipeline(spec)
                lst.append(p)
                self.built.append((spec, p, ops))
            self.by_tick[int(tick)] = lst
        self.t = 0

    def run_one_tick(self):
        out = self.by_tick.get(self.t, [])
        self.t += 1
        return list(out)


class ForeignSim:
    """A second, unrelated simulation that lives in the same process and is stepped in lock-step with the run under
    observation (an A/B comparison, a parameter sweep that builds its objects up front).  It is created a few ticks
    into the run - its Executor / Scheduler / generator objects are constructed while the observed run has live
    containers - uses the same policy, re-uses the observed run's pipeline ids with other priorities, and half of its
    work is too big for its pools (OOM kills, retries, give-ups).  Nothing of it may leak into the observed run."""

    def __init__(self, h):
        from eudoxia.executor import Executor
        from eudoxia.scheduler import Scheduler
        algo = h.algo if h.algo in ("naive", "priority", "priority-pool", "overbook") else "priority"
        tps = h.params["ticks_per_second"]
        p = dict(get_param_defaults())
        p.update({"scheduler_algo": algo, "num_pools": 2, "cpus_per_pool": 4, "ram_gb_per_pool": 8, "ticks_per_second": tps,
                  "duration": 10 ** 6, "multi_operator_containers": True, "allow_memory_overcommit": algo == "overbook",
                  "interactive_prob": 0.0, "query_prob": 0.5, "batch_prob": 0.5, "random_seed": 987654321,
                  "waiting_seconds_mean": 3.0 / tps, "num_pipelines": 2, "num_operators": 2})
        self.ex = Executor(**p)
        self.sched = Scheduler(self.ex, **p)
        self.gen = WorkloadGenerator(**p)          # a second generator with another priority triple, alive and ticking
        ids = []
        ws = h.workload_spec
        if ws.get("type") == "script":
            ids = [sp["pid"] for specs in ws["arrivals"].values() for sp in specs][:40]
        ids = ids or [f"p{i}" for i in range(1, 30)]
        prios = ["QUERY", "BATCH_PIPELINE", "INTERACTIVE"]
        self.todo = []
        for i, pid in enumerate(ids):
            big = i % 2 == 0
            ops = [{"parents": [k - 1] if k else [], "segs": [{"cpu": 2.5 / tps, "law": "const",
                                                              "mem": (100.0 if big and k == 1 else 0.05), "read": 0.0}]}
                   for k in range(2)]
            self.todo.append((3 * i, {"pid": pid, "prio": prios[i % 3], "ops": ops}))
        self.results = []
        self.t = 0

    def step(self):
        new = []
        while self.todo and self.todo[0][0] <= self.t:
            _, spec = self.todo.pop(0)
            pl, _ops = sut.build_pipeline(spec)
            pl.runtime_status().record_arrival(self.t)
            new.append(pl)
        self.gen.run_one_tick()
        sus, asg = self.sched.run_one_tick(self.results, new)
        self.results = self.ex.run_one_tick(sus, asg)
        self.t += 1


class _Recording(Workload):
    def __init__(self, h, inner):
        self.h = h
        self.inner = inner

    def run_one_tick(self):
        h = self.h
        h.tick += 1
        if h.foreign_from is not None and h.tick >= h.foreign_from and h.foreign_error is None:
            # the other simulation's turn: invisible to our recorders (its life-cycle events are not ours)
            saved = TransitionLog.active
            TransitionLog.active = None
            try:
                if h.foreign is None:
                    h.foreign = ForeignSim(h)
                h.foreign.step()
                h.ev("foreign_simulation_steps")
            except Exception:
                h.foreign_error = traceback.format_exc()[-1200:]
            finally:
                TransitionLog.active = saved
        ps = self.inner.run_one_tick()
        h.on_arrivals(ps)
        return ps


_registered = set()
_template_loaded = False


def ensure_template():
    global _template_loaded
    if _template_loaded:
        return
    src = eudoxia_main.SCHEDULER_TEMPLATE.format(scheduler_name=TEMPLATE_NAME)
    ns = {"__name__": "verif_template_module"}
    exec(compile(src, "<eudoxia init -s %s>" % TEMPLATE_NAME, "exec"), ns)
    _template_loaded = True


RANDOM_POLICY = "vrandom"
_random_policy_loaded = False


def ensure_random_policy():
    """A seeded random *admissible* in-process policy (uses only the public scheduler API): schedules
    that no shipped policy produces - partial packings, arbitrary sizes and pools, retries of failed
    operators, suspensions whenever a container sits at an operator boundary."""
    global _random_policy_loaded
    if _random_policy_loaded:
        return
    import random
    from eudoxia.executor.assignment import Assignment, Suspend
    from eudoxia.workload.runtime_status import ASSIGNABLE_STATES

    @register_scheduler_init(key=RANDOM_POLICY)
    def _init(s):
        s.vr_rng = random.Random(s.params.get("vrandom_seed", 0))
        s.vr_open = []
        s.vr_psus = s.params.get("vrandom_p_suspend", 0.3)

    @register_scheduler(key=RANDOM_POLICY)
    def _round(s, results, pipelines):
        rng = s.vr_rng
        s.vr_open.extend(pipelines)
        if len(s.vr_open) > 40:
            s.vr_open = [p for p in s.vr_open if not p.runtime_status().is_pipeline_successful()]
        multi = bool(s.params.get("multi_operator_containers", True))
        overcommit = bool(s.params.get("allow_memory_overcommit", False))
        sus = []
        for pool in s.executor.pools:
            for c in pool.active_containers:
                if c.can_suspend_container() and rng.random() < s.vr_psus:
                    sus.append(Suspend(c.container_id, pool.pool_id))
        asg = []
        if not (results or pipelines or rng.random() < 0.3):
            return sus, asg
        taken = set()
        for pool in s.executor.pools:
            fc, fr = pool.avail_cpu_pool, pool.avail_ram_pool
            for _ in range(rng.choice([0, 1, 1, 2, 3])):
                if fc < 1 or (fr <= 1e-6 and not overcommit):
                    break
                cands = [p for p in s.vr_open if id(p) not in taken]
                rng.shuffle(cands)
                pick = None
                for p in cands[:12]:
                    rs = p.runtime_status()
                    ready = rs.get_ops(ASSIGNABLE_STATES, require_parents_complete=True)
                    if not ready:
                        continue
                    if multi and rng.random() < 0.6:
                        allops = rs.get_ops(ASSIGNABLE_STATES, require_parents_complete=False)
                        # dependency-closed run in listing order
                        chosen, have = [], set()
                        for op in allops:
                            if all((q in have) or q.state().value == "completed" for q in op.parents):
                                chosen.append(op)
                                have.add(op)
                        ops = chosen[:rng.randint(1, max(1, len(chosen)))]
                    else:
                        ops = [rng.choice(ready)]
                    pick = (p, ops)
                    break
                if pick is None:
                    break
                p, ops = pick
                taken.add(id(p))
                cpu = max(1, int(fc * rng.choice([0.1, 0.25, 0.5, 1.0])))
                if overcommit and rng.random() < 0.5:
                    ram = pool.max_ram_pool * rng.choice([0.25, 0.5, 1.0])
                else:
                    ram = fr * rng.choice([0.1, 0.25, 0.5, 1.0])
                    if ram >= 1 and rng.random() < 0.5:
                        ram = float(int(ram))
                if not overcommit:
                    # stay admissible under the executor's own arithmetic (sum of the batch in list order)
                    tot = 0.0
                    for a in asg:
                        if a.pool_id == pool.pool_id:
                            tot += a.ram
                    while ram > 0 and tot + ram > pool.avail_ram_pool:
                        ram *= 0.999
                if ram <= 0:
                    break
                # the priority on a container is the scheduler's label (a policy may promote or demote work);
                # it is not the priority of the pipeline
                label = p.priority if rng.random() < 0.8 else rng.choice(list(type(p.priority)))
                extra = {}
                if rng.random() < 0.2:
                    extra["is_resume"] = True
                    olds = list(pool.suspending_containers) + list(pool.suspended_containers[-3:])
                    if olds and rng.random() < 0.7:
                        extra["container_id"] = rng.choice(olds).container_id
                if rng.random() < 0.15:
                    extra["force_run"] = True
                asg.append(Assignment(ops=ops, cpu=cpu, ram=ram, priority=label, pool_id=pool.pool_id,
                                      pipeline_id=p.pipeline_id, **extra))
                fc -= cpu
                if not overcommit:
                    fr -= ram
        return sus, asg

    _random_policy_loaded = True


def ensure_registered(algo):
    key = "verif:" + algo
    if key in _registered:
        return key
    if algo == TEMPLATE_NAME:
        ensure_template()
    if algo == RANDOM_POLICY:
        ensure_random_policy()

    @register_scheduler_init(key=key)
    def _init(s, _algo=algo):
        h = Harness.current
        INIT_ALGOS[_algo](s)
        h.attach(s)

    @register_scheduler(key=key)
    def _round(s, results, pipelines, _algo=algo):
        return Harness.current.round(s, _algo, results, pipelines)

    _registered.add(key)
    return key


class Harness:
    current = None

    def __init__(self, params, algo, workload_spec, monitors, keep_log=False, foreign_from=None):
        self.params = dict(get_param_defaults())
        self.params.update(params)
        self.foreign_from = foreign_from      # tick from which a second simulation is stepped alongside (None: never)
        self.foreign = None
        self.foreign_error = None
        self.algo = algo
        self.workload_spec = workload_spec
        self.monitors = monitors
        self.tick = -1
        self.sched = None
        self.ex = None
        self.exc = None
        self.exc_where = None
        self.exc_tb = None
        self.stats = None
        self.log = TransitionLog()
        self.pipelines = []          # arrived pipelines in arrival order
        self.arrival_tick = {}       # id(pipeline) -> tick
        self.conts = {}              # container id -> CInfo
        self._susp_seen = {}
        self.live = {}               # containers holding an allocation (active or suspending)
        self.n_ok = self.n_failed = self.n_suspended = 0
        self.cur_assignments = []
        self.cur_suspensions = []
        self.cur_results = []
        self.last_decision = None
        self.n_rounds = 0
        self.tracker_problems = []
        self.script = None
        self.problems = []
        self.events = {}
        self.monitor_error = None
        self.max_ticks = int(self.params["duration"] * self.params["ticks_per_second"])

    def problem(self, tags, kind, msg):
        from .execworld import Problem
        if len(self.problems) < 200:
            self.problems.append(Problem(tuple(tags), kind, msg, self.tick))

    def ev(self, name, n=1):
        self.events[name] = self.events.get(name, 0) + n

    def dispatch(self, hook, *args):
        """Call a hook on every monitor.  A failure inside monitor code must never look like a
        failure of the system under test: it is recorded and monitoring stops (-> inconclusive)."""
        if self.monitor_error is not None:
            return
        for m in self.monitors:
            try:
                getattr(m, hook)(self, *args)
            except Exception:
                self.monitor_error = f"{type(m).__name__}.{hook}: " + traceback.format_exc()[-1500:]
                return

    # ------------------------------------------------------------------ wiring
    def make_workload(self):
        ws = self.workload_spec
        typ = ws["type"]
        if typ == "script":
            self.script = ScriptWorkload(ws["arrivals"])
            return self.script
        if typ == "generator":
            return WorkloadGenerator(**self.params)
        if typ == "trace":
            self._fh = open(ws["path"])
            return CSVWorkloadReader(self._fh).get_workload(self.params["ticks_per_second"])
        raise ValueError(typ)

    def attach(self, s):
        self.sched = s
        self.ex = s.executor
        orig = self.ex.run_one_tick
        h = self

        def run_one_tick(suspensions, assignments):
            try:
                res = orig(suspensions, assignments)
            except Exception as e:
                h.note_exc(e, "executor")
                raise
            h.on_exec(res)
            return res

        self.ex.run_one_tick = run_one_tick
        self.dispatch("attached", s)

    def note_exc(self, e, where):
        if self.exc is None:
            self.exc = e
            self.exc_where = where
            self.exc_tb = traceback.format_exc()[-1800:]

    # ------------------------------------------------------------------ events
    def on_arrivals(self, ps):
        for p in ps:
            self.pipelines.append(p)
            self.arrival_tick[id(p)] = self.tick
        self.dispatch("arrivals", self.tick, ps)

    def round(self, s, algo, results, pipelines):
        t = self.tick
        self.n_rounds += 1
        if t % 3 == 1 and self.ex is not None:
            # a reporting client serialises state between two ticks; reading must not change anything
            try:
                for p_ in self.ex.pools:
                    p_.to_dict()
                for pl_ in self.pipelines[-8:]:
                    pl_.to_dict()
                self.ev("state_serialised_between_ticks")
            except Exception:
                self.ev("state_serialisation_raised")
        self.dispatch("sched_pre", t, s, results, pipelines)
        try:
            sus, asg = SCHEDULING_ALGOS[algo](s, results, pipelines)
        except Exception as e:
            self.note_exc(e, "scheduler")
            raise
        self.cur_suspensions = list(sus)
        self.cur_assignments = list(asg)
        if sus or asg:
            self.last_decision = (t, [(x.container_id, x.pool_id) for x in sus],
                                  [(a.pipeline_id, len(a.ops), a.cpu, a.ram, a.pool_id) for a in asg])
        self.dispatch("sched_post", t, s, sus, asg)
        return sus, asg

    def on_exec(self, results):
        t = self.tick
        self.cur_results = list(results)
        # a consumer may keep what it was handed: the result lists of earlier ticks must still say what they said
        kept = self.__dict__.setdefault("_kept_results", [])
        for (t_, lst_, ids_) in kept:
            if [id(r) for r in lst_] != ids_:
                self.problem(("C09",), "delivered-results-changed", f"the result list delivered in tick {t_} held {len(ids_)} result(s); "
                                                                     f"looked at again in tick {t} it holds {len(lst_)} (other) ones")
                kept.clear()
                break
        kept.append((t, results, [id(r) for r in results]))
        del kept[:-6]
        if self.monitor_error is None:
            try:
                self.track_containers(results)
            except Exception:
                self.monitor_error = "container tracker: " + traceback.format_exc()[-1500:]
        self.dispatch("exec_post", t, results)

    def track_containers(self, results):
        by_ops = {tuple(id(o) for o in a.ops): a for a in self.cur_assignments}
        matched = 0
        for pool in self.ex.pools:
            for c in pool.active_containers:
                ci = self.conts.get(c.container_id)
                if ci is None:
                    a = by_ops.get(tuple(id(o) for o in c.operators))
                    if a is None:
                        self.tracker_problems.append(f"tick {self.tick}: container {c.container_id} appeared without an assignment")
                        continue
                    matched += 1
                    ci = CInfo(c.container_id, pool.pool_id, a.cpu, a.ram, list(a.ops), a.priority, self.tick, c)
                    self.conts[c.container_id] = ci
                    self.live[c.container_id] = ci
                if ci.status == "active":
                    ci.j += 1
            for c in pool.suspending_containers:
                ci = self.conts.get(c.container_id)
                if ci is not None and ci.status == "active":
                    ci.status = "suspending"
            for c in pool.suspended_containers[self._susp_seen.get(pool.pool_id, 0):]:
                ci = self.conts.get(c.container_id)
                if ci is not None and ci.status in ("active", "suspending"):
                    ci.status = "suspended"
                    ci.ended = self.tick
                    self.n_suspended += 1
                    self.live.pop(ci.cid, None)
            self._susp_seen[pool.pool_id] = len(pool.suspended_containers)
        for r in results:
            ci = self.conts.get(r.container_id)
            if ci is None:
                a = by_ops.get(tuple(id(o) for o in r.ops))
                if a is None:
                    self.tracker_problems.append(f"tick {self.tick}: result for unknown container {r.container_id}")
                    continue
                matched += 1
                ci = CInfo(r.container_id, r.pool_id, a.cpu, a.ram, list(a.ops), a.priority, self.tick, None)
                self.conts[r.container_id] = ci
            ci.j += 1
            if ci.status in ("active", "suspending"):
                if r.error is not None:
                    self.n_failed += 1
                else:
                    self.n_ok += 1
            ci.status = "failed" if r.error is not None else "ok"
            ci.ended = self.tick
            self.live.pop(ci.cid, None)
        if matched != len(self.cur_assignments):
            self.tracker_problems.append(
                f"tick {self.tick}: {len(self.cur_assignments)} assignments accepted, {matched} new containers seen")

    # ------------------------------------------------------------------ run
    def run(self):
        key = ensure_registered(self.algo)
        params = dict(self.params)
        params["scheduler_algo"] = key
        wl = _Recording(self, self.make_workload())
        Harness.current = self
        self.dispatch("begin")
        try:
            with self.log:
                try:
                    self.stats = run_simulator(params, workload=wl)
                except Exception as e:
                    self.note_exc(e, "simulator")
                    self.dispatch("raised", self.exc, self.exc_where)
                    return None
            self.dispatch("end", self.stats)
            return self.stats
        finally:
            Harness.current = None
            fh = getattr(self, "_fh", None)
            if fh:
                fh.close()
