"""Command-script generators for the EXEC driver (G5)."""
from . import gen
from .model import ASSIGNABLE


def world_cfg(rng, pools=None, overcommit=None, multi=None, small_ram=False, tps=None):
    return {
        "pools": pools if pools is not None else (rng.choice([1, 1, 2, 3, 4]) if rng.random() < 0.9 else rng.choice([8, 16, 33])),
        "cpus": rng.choice([1, 2, 4, 8, 10, 64]) if rng.random() < 0.93 else rng.choice([1000, 4096]),
        "ram": rng.choice([0.25, 0.5, 1, 4, 16] if small_ram else [0.5, 1, 4, 16, 30, 64, 256, 256, 2048, 2.5, 7.25]),
        "tps": tps if tps is not None else gen.pick_tps(rng, small=rng.random() < 0.7),
        "multi": rng.random() < 0.75 if multi is None else multi,
        "overcommit": rng.random() < 0.4 if overcommit is None else overcommit,
    }


def pipelines_for(rng, w, n, mem_heavy=False, maxn=6, mode="safe", nops=None):
    out = []
    for i in range(n):
        mem_ref = w["ram"] * rng.choice([0.05, 0.2, 0.5, 0.9, 1.2]) if mem_heavy else w["ram"] * rng.choice([0.01, 0.05, 0.2])
        out.append(gen.simple_pipeline(rng, f"p{i}", w["tps"], nops=nops, mode=mode, cpus_hint=rng.choice([1, 2, 4]),
                                       mem_ref=mem_ref, maxn=maxn))
    return out


class MixDriver:
    """Adaptive script writer: looks at the model's view of the world and emits mostly
    admissible commands, with a configurable rate of deliberately inadmissible ones."""

    def __init__(self, rng, steps=60, p_assign=0.5, p_suspend=0.5, p_bad=0.02, bad_kinds=None,
                 oversize=0.0, integer_sizes=True, p_unready=0.1, p_exact_ram=0.1, fixed_size=None, per_pool=None):
        self.rng = rng
        self.steps = steps
        self.p_assign = p_assign
        self.p_suspend = p_suspend
        self.p_bad = p_bad
        self.bad_kinds = bad_kinds or ["oversell-cpu", "oversell-ram", "suspend-mid", "suspend-unknown",
                                       "unknown-pool", "suspend-wrong-pool", "reassign", "oversell-releasing", "oversell-releasing"]
        self.oversize = oversize
        self.integer_sizes = integer_sizes
        self.p_unready = p_unready
        self.p_exact_ram = p_exact_ram
        self.window_size = 24
        self.give_up = {}
        self.fixed_size = fixed_size      # (cpu, ram): every container gets exactly this (long 'busy' scripts)
        self.per_pool = per_pool          # containers started per pool and step

    def assignable_groups(self, w):
        """Groups of operators that can go into one container now: for each pipeline the
        assignable operators, ready ones first (in multi mode a topological run of them)."""
        groups = []
        # a sliding window over the pipelines: long scripts keep a steady supply of work
        win = getattr(self, "window", None)
        if win is None:
            win = self.window = []
            self.next_pi = 0
        win[:] = [pi for pi in win if any(w.mstate[(pi, oi)] not in ("completed",) for oi in range(len(w.specs[pi]["ops"])))
                  and not all(w.mstate[(pi, oi)] == "failed" and self.give_up.get(pi, 0) > 6 for oi in range(len(w.specs[pi]["ops"])) if w.mstate[(pi, oi)] != "completed")]
        while len(win) < self.window_size and self.next_pi < len(w.specs):
            win.append(self.next_pi)
            self.next_pi += 1
        for pi in win:
            spec = w.specs[pi]
            keys = [(pi, oi) for oi in range(len(spec["ops"])) if w.mstate[(pi, oi)] in ASSIGNABLE]
            if not keys:
                continue
            ready = [k for k in keys if w.parents_done(k)]
            groups.append((pi, keys, ready))
        return groups

    def pick_ops(self, w, pi, keys, ready):
        rng = self.rng
        if not w.multi:
            if rng.random() < self.p_unready:
                return [rng.choice(keys)]
            return [rng.choice(ready)] if ready else None
        # multi mode: a dependency-closed prefix in insertion order (what shipped schedulers do),
        # or, rarely, an arbitrary subset (may violate dependencies -> must be rejected when it starts)
        if rng.random() < self.p_unready:
            k = rng.randint(1, len(keys))
            return sorted(rng.sample(keys, k))
        chosen = []
        done = set()
        for key in keys:
            pi_, oi = key
            parents = w.specs[pi_]["ops"][oi]["parents"]
            if all(w.mstate[(pi_, q)] == "completed" or (pi_, q) in done for q in parents):
                chosen.append(key)
                done.add(key)
        if not chosen:
            return None
        k = rng.randint(1, len(chosen))
        return chosen[:k]

    def size(self, w, k, frac_cpu, frac_ram):
        rng = self.rng
        fc, fr = w.free_cpu[k], w.free_ram[k]
        cpu = max(1, int(fc * frac_cpu)) if fc >= 1 else fc
        if self.integer_sizes and fr >= 1:
            ram = max(1, int(fr * frac_ram))
        else:
            ram = fr * frac_ram
        if w.overcommit and rng.random() < 0.5:
            ram = w.ram * rng.choice([0.5, 1.0, 1.0, 2.0])
        return cpu, ram

    def __call__(self, w, i):
        rng = self.rng
        if i >= self.steps:
            return None
        step = {"sus": [], "asg": []}
        bad = rng.random() < self.p_bad and i > 2
        bad_kind = rng.choice(self.bad_kinds) if bad else None
        # --- suspensions
        for k in range(w.npools):
            for mc in w.active[k]:
                if mc.boundary and rng.random() < self.p_suspend:
                    step["sus"].append({"pool": k, "c": mc.ordinal})
        if bad_kind == "suspend-mid":
            cands = [mc for k in range(w.npools) for mc in w.active[k] if not mc.boundary]
            if cands:
                mc = rng.choice(cands)
                step["sus"] = [{"pool": mc.pool, "c": mc.ordinal}]
                step["_bad"] = bad_kind
        elif bad_kind == "suspend-unknown":
            step["sus"] = [{"pool": rng.randrange(w.npools), "c": rng.choice([10 ** 6, "zzz"])}]
            ended = [mc for mc in w.containers if mc.status in ("ok", "failed", "suspended", "suspending")]
            if ended and rng.random() < 0.7:
                mc = rng.choice(ended)
                step["sus"] = [{"pool": mc.pool, "c": mc.ordinal}]
            step["_bad"] = bad_kind
        elif bad_kind == "suspend-wrong-pool" and w.npools > 1:
            cands = [mc for k in range(w.npools) for mc in w.active[k] if mc.boundary]
            if cands:
                mc = rng.choice(cands)
                step["sus"] = [{"pool": (mc.pool + 1) % w.npools, "c": mc.ordinal}]
                step["_bad"] = bad_kind
        # --- assignments
        groups = self.assignable_groups(w)
        rng.shuffle(groups)
        used = set()
        for k in range(w.npools):
            if not groups or rng.random() > self.p_assign:
                continue
            n_here = self.per_pool if self.per_pool else rng.choice([1, 1, 2, 3])
            budget_c = w.free_cpu[k] - sum(a["cpu"] for a in step["asg"] if a["pool"] == k)
            budget_r = w.free_ram[k] - (0 if w.overcommit else sum(a["ram"] for a in step["asg"] if a["pool"] == k))
            for _ in range(n_here):
                cand = [g for g in groups if g[0] not in used]
                if not cand or budget_c <= 0 or (budget_r <= 0 and not w.overcommit):
                    break
                pi, keys, ready = cand[0]
                used.add(pi)
                if any(w.mstate[k] == "failed" for k in keys):
                    self.give_up[pi] = self.give_up.get(pi, 0) + 1
                ops = self.pick_ops(w, pi, keys, ready)
                if not ops:
                    continue
                fc = rng.choice([0.1, 0.25, 0.5, 1.0])
                fr = rng.choice([0.1, 0.25, 0.5, 1.0])
                cpu = max(1, int(budget_c * fc)) if budget_c >= 1 else budget_c
                if self.integer_sizes and budget_r >= 1:
                    ram = max(1, int(budget_r * fr))
                else:
                    ram = budget_r * fr
                if w.overcommit and rng.random() < 0.5:
                    ram = w.ram * rng.choice([0.5, 1.0, 1.0, 2.0])
                if self.fixed_size:
                    cpu, ram = self.fixed_size
                    if cpu > budget_c or (ram > budget_r and not w.overcommit):
                        break
                elif rng.random() < self.p_exact_ram:
                    # allocation exactly equal to the peak of the chosen operators (limit boundary, no rounding)
                    peak = max((gen.seg_peak(sg) for (pi_, oi_) in ops for sg in w.specs[pi_]["ops"][oi_]["segs"]), default=0)
                    if 0 < peak <= (budget_r if not w.overcommit else peak):
                        ram = peak
                if ram <= 0 or cpu <= 0:
                    break
                step["asg"].append({"pool": k, "cpu": cpu, "ram": ram, "ops": [list(x) for x in ops]})
                if rng.random() < 0.25:
                    step["asg"][-1]["resume"] = True          # the is_resume flag of the API: a label, nothing else
                    olds = [mc.ordinal for mc in w.suspending[k]] + [mc.ordinal for mc in w.suspended[k][-3:]]
                    if olds and rng.random() < 0.7:
                        step["asg"][-1]["resume_of"] = rng.choice(olds)   # ... naming a container written out / being written out
                if rng.random() < 0.2:
                    step["asg"][-1]["force"] = True           # force_run: documented, stored, without effect
                budget_c -= cpu
                if not w.overcommit:
                    budget_r -= ram
                if rng.random() < self.p_unready * 0.5 and not self.fixed_size:
                    # a family split over two containers of one batch: the child of an operator that is only being
                    # started now goes into a container of its own (listed after its parent's) - it would run next
                    # to its unfinished parent, so the start has to be refused
                    inb = set(ops)
                    kids = [(pi, oi) for oi in range(len(w.specs[pi]["ops"]))
                            if (pi, oi) not in inb and w.mstate[(pi, oi)] in ASSIGNABLE
                            and any((pi, q) in inb for q in w.specs[pi]["ops"][oi]["parents"])
                            and all((pi, q) in inb or w.mstate[(pi, q)] == "completed" for q in w.specs[pi]["ops"][oi]["parents"])]
                    k2 = k if (rng.random() < 0.7 or w.npools == 1) else rng.choice([x for x in range(w.npools) if x != k])
                    c2 = budget_c if k2 == k else w.free_cpu[k2] - sum(a["cpu"] for a in step["asg"] if a["pool"] == k2)
                    r2 = budget_r if k2 == k else w.free_ram[k2] - sum(a["ram"] for a in step["asg"] if a["pool"] == k2)
                    if kids and c2 >= 1 and (r2 > 0.5 or w.overcommit):
                        ram2 = min(r2, 1.0) if not w.overcommit else 1.0
                        step["asg"].append({"pool": k2, "cpu": 1, "ram": ram2, "ops": [list(rng.choice(kids))]})
                        step["_split_family"] = "same-pool" if k2 == k else "other-pool"
                        if k2 == k:
                            budget_c -= 1
                            if not w.overcommit:
                                budget_r -= ram2
        if bad_kind in ("oversell-cpu", "oversell-ram") and step["asg"]:
            a = rng.choice(step["asg"])
            k = a["pool"]
            step["sus"] = [s for s in step["sus"] if s["pool"] != k]
            tot_c = sum(x["cpu"] for x in step["asg"] if x["pool"] == k)
            tot_r = sum(x["ram"] for x in step["asg"] if x["pool"] == k)
            if rng.random() < 0.5:
                a["force"] = True            # an overselling batch stays inadmissible whatever its flags say
            if bad_kind == "oversell-cpu":
                a["cpu"] += (w.free_cpu[k] - tot_c) + rng.choice([1, 1, 2, 0.5])
                step["_bad"] = bad_kind
            elif not w.overcommit:
                a["ram"] += (w.free_ram[k] - tot_r) + rng.choice([1, 0.001, 2, 0.5])
                step["_bad"] = bad_kind
        elif bad_kind == "oversell-releasing":
            # a request that only fits with what a container in its *last* write-out tick is about to give back:
            # the allocation is kept until the write-out is over, so this batch oversells the pool
            cands = [mc for k in range(w.npools) for mc in w.suspending[k] if mc.sus_left == 1]
            grp = [g for g in groups if g[2]]
            if cands and grp:
                mc = rng.choice(cands)
                k = mc.pool
                pi, keys, ready = grp[0]
                cpu = w.free_cpu[k] + max(1, int(mc.cpu * rng.choice([0.5, 1.0]))) if mc.cpu >= 1 else w.free_cpu[k] + mc.cpu
                ram = min(w.free_ram[k], 1.0) if w.free_ram[k] > 0.01 else 0.5
                if cpu > w.free_cpu[k] and (ram <= w.free_ram[k] or w.overcommit):
                    step["asg"] = [{"pool": k, "cpu": cpu, "ram": ram, "ops": [list(ready[0])]}]
                    step["sus"] = [s_ for s_ in step["sus"] if s_["pool"] != k]
                    step["_bad"] = "oversell-cpu"
                    step["_releasing"] = True
        elif bad_kind == "unknown-pool" and (step["asg"] or step["sus"]):
            tgt = rng.choice(step["asg"] or step["sus"])
            tgt["pool"] = rng.choice([-1, w.npools, w.npools + 3, 10 ** 6])
            step["_bad"] = bad_kind
        elif bad_kind == "reassign":
            busy = [key for key, st in w.mstate.items() if st in ("running", "assigned", "completed", "suspending")]
            if busy:
                key = rng.choice(busy)
                k = rng.randrange(w.npools)
                if w.free_cpu[k] >= 1 and w.free_ram[k] > 0:
                    step["asg"] = [{"pool": k, "cpu": 1, "ram": min(w.free_ram[k], 1.0), "ops": [list(key)]}]
                    if rng.random() < 0.5:
                        step["asg"][0]["resume"] = True      # "resuming" work that is still being written out / running
                    step["sus"] = []
                    step["_bad"] = bad_kind
        return step


def drain_for(case, extra=400):
    case["drain"] = extra
    return case
