"""Import the tree under test (VERIF_REPO, default /repo) and silence its logging.

Nothing is built: "rebuild from the working tree" means "import it fresh in a new
interpreter", which every worker does through setup().
"""
import os
import sys

VERIF_DIR = os.path.dirname(os.path.dirname(os.path.abspath(__file__)))
REPO = os.path.abspath(os.environ.get("VERIF_REPO", "/repo"))
PY = os.environ.get("VERIF_PY", "/venv/bin/python")

_done = False


def setup():
    """Put the tree under test first on sys.path, import eudoxia, disable logging."""
    global _done
    if _done:
        return
    if REPO in sys.path:
        sys.path.remove(REPO)
    sys.path.insert(0, REPO)
    import logging
    # `import eudoxia` calls logging.basicConfig(DEBUG, stdout); keep it quiet
    devnull = open(os.devnull, "w")
    real_stdout = sys.stdout
    sys.stdout = devnull
    try:
        import eudoxia  # noqa: F401
    finally:
        sys.stdout = real_stdout
    if os.environ.get("VERIF_LOGGING") == "default":
        # the package's own default: root logger at DEBUG with a stream handler (what `eudoxia run` and every plain
        # script get).  Everything is formatted and emitted - into /dev/null.  Code guarded by
        # logger.isEnabledFor(DEBUG) runs in this mode and only in this mode.
        for h_ in logging.getLogger().handlers:
            try:
                h_.setStream(devnull)
            except Exception:
                pass
    else:
        logging.disable(logging.CRITICAL)
        logging.getLogger().handlers[:] = []
    here = os.path.abspath(eudoxia.__file__)
    assert here.startswith(REPO + os.sep), f"eudoxia imported from {here}, expected under {REPO}"
    _done = True
