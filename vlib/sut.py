"""Adapters to the tree under test: building pipelines from specs, the transition
log probe (P1), reading states.  Imported only in workers (after env.setup())."""
from . import env

env.setup()

from eudoxia.workload.pipeline import Pipeline, Segment  # noqa: E402
from eudoxia.workload.runtime_status import PipelineRuntimeStatus, OperatorState  # noqa: E402
from eudoxia.utils import Priority  # noqa: E402
from eudoxia.executor.assignment import Assignment, Suspend  # noqa: E402
from eudoxia.executor import Executor  # noqa: E402


def build_pipeline(spec):
    """spec: {"pid", "prio", "ops": [{"parents": [idx...], "segs": [{"cpu","law","mem","read"}]}]}
    Returns (pipeline, [operators in spec order])."""
    p = Pipeline(spec["pid"], Priority[spec["prio"]])
    ops = []
    scratch = []          # one list object re-used for every parents argument and emptied after each call:
    for o in spec["ops"]:  # the DAG has to keep its own copy of the edges, not the caller's list
        scratch.extend(ops[i] for i in o["parents"])
        op = p.new_operator(scratch if scratch else None)
        del scratch[:]
        for s in o["segs"]:
            op.add_segment(shared_segment(s))
        ops.append(op)
    return p, ops


_SEGMENTS = {}


def shared_segment(s):
    """Segments are immutable descriptions; equal ones are shared between operators, pipelines, runs and tick
    rates of one process (anything memoised on a Segment must not depend on who ran it before)."""
    key = (s["cpu"], s.get("law", "const"), s.get("mem"), s.get("read", 0.0),
           type(s["cpu"]).__name__, type(s.get("mem")).__name__, type(s.get("read", 0.0)).__name__)
    seg = _SEGMENTS.get(key)
    if seg is None:
        if len(_SEGMENTS) > 50000:
            _SEGMENTS.clear()
        seg = _SEGMENTS[key] = Segment(baseline_cpu_seconds=s["cpu"], cpu_scaling=s.get("law", "const"),
                                       memory_gb=s.get("mem"), storage_read_gb=s.get("read", 0.0))
    return seg


def state_of(op):
    return op.pipeline.runtime_status().operator_states[op].value


def states_of(ops):
    return [state_of(o) for o in ops]


# --------------------------------------------------------------------------- P1 transition log


class TransitionLog:
    """Total order of life-cycle requests, recorded at the public transition API."""
    active = None  # the log currently receiving events (one per process)

    def __init__(self):
        self.events = []   # (seq, op, from, to, accepted, msg)
        self.listeners = []

    def __enter__(self):
        TransitionLog.active = self
        return self

    def __exit__(self, *a):
        TransitionLog.active = None
        return False


_orig_transition = None


def install_transition_probe():
    global _orig_transition
    if _orig_transition is not None:
        return
    _orig_transition = PipelineRuntimeStatus.transition

    def transition(self, operator, new_state, *args, **kwargs):
        # extra (optional) arguments of a later version are passed through untouched
        log = TransitionLog.active
        if log is None:
            return _orig_transition(self, operator, new_state, *args, **kwargs)
        old = self.operator_states.get(operator)
        before = None
        if log.listeners:
            before = (dict(self.operator_states), dict(self.state_counts))
        try:
            r = _orig_transition(self, operator, new_state, *args, **kwargs)
        except BaseException as e:
            ev = (len(log.events), operator, old.value if old else None, new_state.value, False, str(e))
            log.events.append(ev)
            for fn in log.listeners:
                fn(ev, self, before)
            raise
        ev = (len(log.events), operator, old.value if old else None, new_state.value, True, None)
        log.events.append(ev)
        for fn in log.listeners:
            fn(ev, self, before)
        return r

    PipelineRuntimeStatus.transition = transition


install_transition_probe()
