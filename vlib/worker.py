import sys
from .core import worker_main

if __name__ == "__main__":
    sys.exit(worker_main(sys.argv[1:]))
