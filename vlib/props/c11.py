"""C11 - pool-level OOM kills take highest scorers first and stop once usage fits.

EXEC with overcommit: 2..12 concurrent containers whose allocations and growth profiles make
usage order and score order (usage^2/allocation) disagree; the pool crosses its capacity by
growth, by a start, or right after a completion; several victims per tick; exact ties.  For
every tick the set of failed containers is judged clause by clause by model M5 on the
per-container demand of model M3.  SIM: overbook runs on small pools end to end."""
from ..core import rng_for
from .. import gen
from . import _exec, _sim

ID = "C11"
LEVEL = "exploration"
ANCHORS = ["eudoxia/executor/resource_pool.py", "eudoxia/executor/container.py", "eudoxia/scheduler/overbook.py"]
RULE = ("cases = overcommitted pools with 2..12 concurrent containers (growing and fixed memory, allocations 0.1x..2x the pool, "
        "staggered starts, duplicates for ties) plus overbook simulations on small pools; non-trivial = at least one tick in "
        "which the pool's total demand exceeded capacity and the victim set was judged; distinct = distinct scripts/configurations")
ASSUMPTIONS = [
    "per-container demand of a tick from the independent model M3 (the real pre-kill usage is not read)",
    "clause form (no exact victim set) so that score ties and float-equal totals are accepted either way",
]
NSHARDS = {"quick": 16, "thorough": 16}
N_CASES = {"quick": 260, "thorough": 50000}
N_SIM = {"quick": 12, "thorough": 1500}
REQUIRE = {"kill_pool_level_in_a_tick_with_a_suspension": 10, "scale:script_with_more_than_1000_exits_on_one_pool": 1, "kill_pool_level": 1000, "ticks_with_more_than_8_pool_level_kills": 10, "ticks_with_pool_level_victims": 400, "ticks_with_multiple_victims": 50,
           "ticks_usage_order_differs_from_score_order": 50, "cases_with_ties": 20, "sim_kills_pool_level": 20}


def make_case(rng, idx):
    tps = rng.choice([1, 2, 5, 10, 20, 100])
    R = rng.choice([4, 16, 64, 256])
    n = rng.randint(2, 12)
    pipes = []
    starts = {}
    ties = rng.random() < 0.25
    proto = None
    for i in range(n):
        kind = rng.choice(["grow", "grow", "fixed", "grow2"])
        ops = []
        nops = rng.choice([1, 1, 2])
        for k in range(nops):
            io_t = rng.randint(3, 30) + rng.uniform(0.25, 0.75)
            cpu_t = rng.randint(0, 10) + rng.uniform(0.25, 0.75)
            if kind == "fixed":
                seg = {"cpu": cpu_t / tps, "law": "const", "mem": R * rng.choice([0.05, 0.2, 0.4, 0.7]), "read": 0.0}
            else:
                # growing: 20/tps GB per tick for io_t ticks
                seg = {"cpu": cpu_t / tps, "law": "const", "mem": None, "read": 20.0 * io_t / tps}
            ops.append({"parents": [k - 1] if k else [], "segs": [seg]})
        alloc = R * rng.choice([0.1, 0.25, 0.5, 1.0, 1.0, 2.0])
        spec = {"pid": f"p{i}", "prio": rng.choice(gen.PRIOS), "ops": ops, "_alloc": alloc}
        if ties and proto is not None and rng.random() < 0.6:
            spec = dict(proto, pid=f"p{i}")
            spec["_tie"] = True
        else:
            proto = spec
        pipes.append(spec)
        st = 0 if rng.random() < 0.6 else rng.randint(0, 12)
        if spec.get("_tie"):
            st = starts_of_proto
        else:
            starts_of_proto = st
        starts.setdefault(st, []).append(i)
    steps = []
    for t in range(max(starts) + 1):
        asg = [{"pool": 0, "cpu": 1, "ram": pipes[i]["_alloc"], "ops": [[i, k] for k in range(len(pipes[i]["ops"]))]}
               for i in starts.get(t, [])]
        steps.append({"sus": [], "asg": asg})
    return {"kind": "overcommit", "world": {"pools": 1, "cpus": 64, "ram": R, "tps": tps, "multi": True, "overcommit": True},
            "pipelines": pipes, "steps": steps, "drain": 400, "_ties": ties}


def long_case(rng, waves):
    """Many waves of containers on one overcommitted pool: thousands of kill decisions in one executor."""
    tps = rng.choice([5, 10])
    R = 64
    pipes, steps = [], []
    # L: small for a long time (survives the early overflows), then the heaviest container of the pool
    quiet = int(waves * 2.2)
    pipes.append({"pid": "L", "prio": "BATCH_PIPELINE", "ops": [
        {"parents": [], "segs": [{"cpu": (quiet + 0.5) / tps, "law": "const", "mem": R * 0.02, "read": 0.0}]},
        {"parents": [0], "segs": [{"cpu": (waves * 2 + 0.5) / tps, "law": "const", "mem": R * 0.55, "read": 0.0}]}]})
    for wv in range(waves):
        asg = []
        if wv == 0:
            asg.append({"pool": 0, "cpu": 1, "ram": R * 1.0, "ops": [[0, 0], [0, 1]]})
        for j in range(rng.randint(3, 6)):
            i = len(pipes)
            io_t = rng.randint(4, 9) + 0.5
            pipes.append({"pid": f"w{i}", "prio": "BATCH_PIPELINE", "ops": [{"parents": [], "segs": [
                {"cpu": (rng.randint(0, 2) + 0.5) / tps, "law": "const", "mem": None, "read": 20.0 * io_t / tps}]}]})
            asg.append({"pool": 0, "cpu": 1, "ram": R * rng.choice([0.25, 0.5, 1.0, 2.0]), "ops": [[i, 0]]})
        steps.append({"sus": [], "asg": asg})
        for _ in range(rng.randint(2, 4)):
            steps.append({"sus": [], "asg": []})
    return {"kind": "overcommit", "world": {"pools": 1, "cpus": 64, "ram": R, "tps": tps, "multi": True, "overcommit": True},
            "pipelines": pipes, "steps": steps, "drain": 200, "_long": True}


def cases(tier, seed, shard, nshards):
    rng = rng_for(ID, seed, shard)
    for _m in range(2 if tier == "quick" else 40):
        # many containers start in one tick and overload one overcommitted pool: 9 .. 60 pool-level kills in one tick
        yield _exec.mass_start_case(rng)
    if tier == "thorough" or shard < 3:
        yield long_case(rng, 600 if tier == "quick" else 1500)
    for i in range(N_CASES[tier]):
        yield make_case(rng, i)
    for i in range(max(20, N_CASES[tier] // 10)):
        # overcommitted pools *with suspensions*: containers that are being written out no longer count towards
        # the pool's usage - neither as trigger nor as stop condition of the killer
        yield _exec.mix_case(rng, 7 * 10 ** 5 + i, steps=rng.choice([40, 80]), p_bad=0.0, p_suspend=rng.choice([0.5, 1.0]),
                             mem_heavy=True, p_unready=0.0, multi=True, overcommit=True, npipes=rng.randint(4, 12),
                             nops=rng.choice([2, 3, 4]), tps=rng.choice([1, 2, 5, 10, 100]))
    for i in range(N_SIM[tier]):
        yield _sim.random_sim_case(rng, small=True, algos=("overbook",), mem_levels=[0.15, 0.3, 0.45, 0.6, 0.9],
                                   workload="script")


class KillStats:
    """Evidence only: classify the kill ticks the model judged."""


def run_case(case, mon):
    if case["kind"] == "sim":
        _sim.run_sim_case(case, mon, ID)
        return
    from ..execworld import World
    w, mine = _exec.run_exec_case(case, mon, ID, driver=_exec.mix_driver(case) if case.get("_adaptive_pending") else None,
                                  max_steps=case.get("driver", {}).get("steps", 60))
    # evidence about the judged ticks (from the model's own bookkeeping)
    by_step = {}
    for mc in w.containers:
        if mc.status == "failed" and mc.end_step is not None:
            by_step.setdefault(mc.end_step, []).append(mc)
    pool_ticks = 0
    for st, mcs in by_step.items():
        pl = [mc for mc in mcs if not (mc.ticks[mc.j - 1].demand > mc.ram)]
        if pl:
            pool_ticks += 1
            mon.count("ticks_with_pool_level_victims")
            if len(pl) > 1:
                mon.count("ticks_with_multiple_victims")
            # did the victim with the highest score also have the highest usage among all containers alive then?
            alive = [m for m in w.containers if m.born is not None and m.born <= st and (m.end_step is None or m.end_step >= st)]
            def use(m):
                j = m.j - 1 if m.end_step == st or m.end_step is None else m.j - 1
                j = min(max(st - m.born, 0), len(m.ticks) - 1)
                return m.ticks[j].demand
            if len(alive) > 1:
                by_use = max(alive, key=use)
                by_score = max(alive, key=lambda m: use(m) ** 2 / m.ram)
                if by_use is not by_score:
                    mon.count("ticks_usage_order_differs_from_score_order")
    if case.get("_ties") and pool_ticks:
        mon.count("cases_with_ties")
    if pool_ticks:
        mon.hit({"kill_ticks": pool_ticks, "victims": sum(len(v) for v in by_step.values()), "trace_tail": w.trace[-3:]})
