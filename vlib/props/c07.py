"""C07 - runs are reproducible and every policy is evaluated on the same workload.

Every shard is a fresh interpreter process started under its own PYTHONHASHSEED (0, 1, 2,
12345, random, ...) and runs the *same* list of configurations.  Per configuration:
(a) the simulation is run, then unrelated simulations are run in the same process, then it
is run again - canonical event logs (arrivals with full segment data, decisions, results per
tick; pipeline / operator / container identifiers renumbered by first appearance) and the
returned statistics must be identical; (b) the digests are handed to the parent, which
compares them across the processes / hash seeds; (c) the generated workload is compared
across scheduler / executor settings (must not change) and (d) across seeds (must change)."""
import hashlib
import json

from ..core import rng_for, jsonable
from .. import gen
from . import _sim

ID = "C07"
LEVEL = "exploration"
ANCHORS = ["eudoxia/workload/workload.py", "eudoxia/simulator.py", "eudoxia/executor/container.py", "eudoxia/utils/dag.py",
           "eudoxia/scheduler/priority.py", "eudoxia/scheduler/decorators.py"]
RULE = ("cases = configurations (all shipped policies, generator and scripted DAG workloads, OOM/suspension-provoking sizes) each "
        "run twice in every one of the shard processes (different PYTHONHASHSEED, unrelated runs in between) and compared by "
        "canonical-log digest within and across processes; plus generator-only comparisons across scheduler/executor settings "
        "and seeds; non-trivial = a pair of runs with >= 1 container whose digests were compared; distinct = configurations")
ASSUMPTIONS = [
    "canonicalisation renumbers pipelines/operators/containers by first appearance; everything else (ticks, sizes, pools, errors, segment data) is compared verbatim",
    "hash seeds exercised: 0, 1, 2, 3, 12345, 4294967295 and 'random'",
]
HASHSEEDS = ["0", "1", "2", "random", "12345", "3", "random", "4294967295"]
NSHARDS = {"quick": 8, "thorough": 16}
N_CFG = {"quick": 36, "thorough": 900}
N_GEN = {"quick": 40, "thorough": 600}
REQUIRE = {"paired_runs_same_process": 200, "paired_with_failures": 50, "paired_with_suspensions": 20,
           "paired_with_pool_level_ties": 10, "paired_with_simultaneous_suspension_ends": 5,
           "cross_process_comparisons": 200, "workload_independence_checked": 200, "seed_pairs_checked": 200,
           "paired_with_more_than_4096_exits_on_one_pool": 4, "paired_with_second_live_simulation": 50}


def cfg_list(tier, seed):
    rng = rng_for(ID, seed, "configs")     # same list in every shard
    out = []
    for i in range(N_CFG[tier]):
        if i % 6 == 0:
            # preemption-provoking priority run (multi-operator batch work, then queries)
            tps = rng.choice([1, 2, 5, 10])
            arrivals = {}
            for j in range(14):
                arrivals.setdefault("0", []).append(gen.simple_pipeline(rng, f"b{j}", tps, nops=3, prio="BATCH_PIPELINE", shape="chain",
                                                                      mode="safe", cpus_hint=1, mem_ref=0.05, maxn=3))
            for j in range(4):
                arrivals.setdefault(str(rng.randint(1, 6)), []).append(
                    gen.simple_pipeline(rng, f"q{j}", tps, nops=1, prio="QUERY", mode="safe", cpus_hint=1, mem_ref=0.05, maxn=3))
            c = {"kind": "sim", "algo": "priority", "workload": {"type": "script", "arrivals": arrivals},
                 "params": {"duration": 120 / tps, "ticks_per_second": tps, "num_pools": 1, "cpus_per_pool": 10,
                            "ram_gb_per_pool": 10, "multi_operator_containers": True}}
        elif i == 7:
            # directed: ten identical 3-operator containers reach their operator boundary in the same tick while four
            # queries wait -> four suspensions issued in one round, four one-tick write-outs ending in the same tick
            tps = 5
            mk = lambda pid, prio, n: {"pid": pid, "prio": prio, "ops": [
                {"parents": [k - 1] if k else [], "segs": [{"cpu": 3.5 / tps, "law": "const", "mem": 0.05, "read": 0.0}]} for k in range(n)]}
            arrivals = {"0": [mk(f"b{j}", "BATCH_PIPELINE", 3) for j in range(12)],
                        "2": [mk(f"q{j}", "QUERY", 1) for j in range(4)],
                        "20": [mk(f"late{j}", "INTERACTIVE", 2) for j in range(6)]}
            c = {"kind": "sim", "algo": "priority", "workload": {"type": "script", "arrivals": arrivals},
                 "params": {"duration": 200 / tps, "ticks_per_second": tps, "num_pools": 1, "cpus_per_pool": 10,
                            "ram_gb_per_pool": 10, "multi_operator_containers": True}}
        elif i % 6 == 1:
            # identical multi-operator pipelines: operator boundaries coincide, several suspensions end in one tick
            c = _sim.preemption_case(rng, algo="priority", oom=False, identical=True)
        elif i == 5:
            # > 4096 container exits on one pool in one run (naive starts one container per tick: too few)
            c = _sim.scale_case(rng, "many-small", algo="priority")
            c["params"]["num_pools"] = 1
        elif i % 6 == 2:
            # overbook with exact score ties: identical pipelines start in the same tick on a pool they overflow together
            tps = rng.choice([2, 5, 10])
            R = rng.choice([16, 64])
            n = rng.randint(4, 9)
            arrivals = {}
            for b in range(rng.randint(1, 3)):
                spec = {"prio": "BATCH_PIPELINE", "ops": [{"parents": [], "segs": [
                    {"cpu": rng.randint(2, 6) / tps, "law": "const", "mem": None, "read": R * rng.choice([0.3, 0.45, 0.7])}]},
                    {"parents": [0], "segs": [{"cpu": 2 / tps, "law": "const", "mem": R * 0.05, "read": 0.0}]}]}
                for j in range(n):
                    arrivals.setdefault(str(b * 7), []).append(dict(spec, pid=f"t{b}_{j}"))
            c = {"kind": "sim", "algo": "overbook", "workload": {"type": "script", "arrivals": arrivals},
                 "params": {"duration": 200 / tps, "ticks_per_second": tps, "num_pools": 1, "cpus_per_pool": n + 2,
                            "ram_gb_per_pool": R, "multi_operator_containers": False, "allow_memory_overcommit": True}}
        else:
            c = _sim.random_sim_case(rng, small=True, mem_levels=[0.05, 0.15, 0.3, 0.6], max_ticks=rng.choice([100, 300, 600]), algos=_sim.ALGOS_PLUS)
        c["_cfg"] = i
        out.append(c)
    return out


def cases(tier, seed, shard, nshards):
    cfgs = cfg_list(tier, seed)
    # every process visits the configurations in a different rotation, so that process-global
    # state (container counter, registries, caches) differs at each configuration
    rot = (shard * len(cfgs)) // max(1, nshards)
    for c in cfgs[rot:] + cfgs[:rot]:
        yield c
    rng = rng_for(ID, seed, "gen", shard)
    for i in range(N_GEN[tier]):
        tps = gen.pick_tps(rng, small=True)
        iq = rng.choice(gen.PROB_TRIPLES)
        yield {"kind": "genonly", "ticks": rng.choice([200, 1000]),
               "wparams": {"waiting_seconds_mean": rng.choice([2, 5, 20]) / tps, "num_pipelines": rng.choice([1, 3, 6]),
                           "num_operators": rng.choice([1, 3, 8]), "num_segs": 1, "cpu_io_ratio": rng.choice([0, 0.5, 1]),
                           "interactive_prob": iq[0], "query_prob": iq[1], "batch_prob": iq[2], "ticks_per_second": tps,
                           # any non-negative integer is a seed: 0 and values beyond 32/64 bits included
                           "random_seed": rng.choice([0, 0, 1, 2 ** 32 - 1, 2 ** 32, 2 ** 64 + 5]) if i % 5 == 0 else rng.randint(0, 10 ** 6)}}


_MAX_ID = [0]


def _note_ids(h):
    import re
    for cid in h.conts:
        m = re.search(r"(\d+)$", str(cid))
        if m:
            _MAX_ID[0] = max(_MAX_ID[0], int(m.group(1)))


def burn_container_ids(n):
    """Advance the process-wide container numbering by n (a preceding history of simulations:
    one naive pool running n one-tick pipelines)."""
    from ..simworld import Harness
    if n <= 0:
        return
    spec = lambda j: {"pid": f"burn{j}", "prio": "BATCH_PIPELINE", "ops": [
        {"parents": [], "segs": [{"cpu": 0.5, "law": "const", "mem": 0.001, "read": 0.0}]}]}
    h = Harness({"duration": n + 3, "ticks_per_second": 1, "num_pools": 1, "cpus_per_pool": 1, "ram_gb_per_pool": 1,
                 "multi_operator_containers": True}, "naive", {"type": "script", "arrivals": {str(j): [spec(j)] for j in range(n)}}, [])
    h.run()
    _note_ids(h)


def position_for_rollover(h1):
    """Arrange the numbering so that, in the next run of the same configuration, a group of
    containers that were born together (and of which some were killed) straddles a power of
    ten (c99|c100, c999|c1000): identifiers must not influence behaviour."""
    import re
    order = sorted(h1.conts.values(), key=lambda c: (c.born, int(re.sub(r"\D", "", str(c.cid)) or 0)))
    if not order or _MAX_ID[0] == 0:
        return False
    idx = {c.cid: i for i, c in enumerate(order)}
    a = 1
    for t in sorted({c.ended for c in order if c.status == "failed"}):
        grp = [c for c in order if c.status == "failed" and c.ended == t]
        same = [c for c in order if c.born == grp[0].born and c.pool == grp[0].pool]
        if len(same) > 1:
            a = idx[same[0].cid] + 1
            break
    nxt = _MAX_ID[0] + 1
    target = 10
    while target - a < nxt:
        target *= 10
        if target > 10 ** 6:
            return False
    burn = target - a - nxt
    if burn > (30000 if h1.algo == "overbook" and h1.n_failed else 9000):
        return False
    burn_container_ids(burn)
    return _MAX_ID[0] + 1 == target - a or burn == 0


def run_once(case, foreign_from=None):
    from ..simworld import Harness
    from ..simmon import EventLogMon
    lg = EventLogMon()
    h = Harness(case["params"], case["algo"], gen.strip(case["workload"]), [lg], foreign_from=foreign_from)
    h.run()
    _note_ids(h)
    stats = json.dumps(jsonable(h.stats.to_dict()), sort_keys=True) if h.stats is not None else f"raised {type(h.exc).__name__}: {h.exc}"
    return lg, h, stats


def workload_digest(wparams, extra, ticks):
    from eudoxia.workload import WorkloadGenerator
    p = dict(wparams)
    p.update(extra)
    g = WorkloadGenerator(**p)
    hsh = hashlib.sha256()
    n = 0
    for t in range(ticks):
        for pl in g.run_one_tick():
            n += 1
            keys = list(pl.runtime_status().operator_states.keys())
            desc = (t, pl.pipeline_id, pl.priority.name,
                    [([keys.index(q) for q in op.parents],
                      [(s.baseline_cpu_seconds, s.scaling_func.__name__, s.memory_gb, s.storage_read_gb) for s in op.get_segments()])
                     for op in keys])
            hsh.update(repr(desc).encode())
    return hsh.hexdigest(), n


def run_case(case, mon):
    if case["kind"] == "genonly":
        rng = rng_for("c07-extra", json.dumps(case["wparams"], sort_keys=True))
        base, n = workload_digest(case["wparams"], {}, case["ticks"])
        for extra in ({"scheduler_algo": "naive", "num_pools": 1, "cpus_per_pool": 1, "ram_gb_per_pool": 0.5},
                      {"scheduler_algo": "overbook", "num_pools": 8, "cpus_per_pool": 64, "ram_gb_per_pool": 256,
                       "allow_memory_overcommit": True, "multi_operator_containers": False, "duration": 5,
                       "rest_poll_interval": 3.0}):
            d, _ = workload_digest(case["wparams"], extra, case["ticks"])
            mon.count("workload_independence_checked")
            if d != base:
                mon.fail("workload-depends-on-settings", f"generated workload changed when only scheduler/executor settings changed: {extra}")
        if n > 0:
            # another seed: a neighbour, or one that differs only beyond 32 / 64 bits (every bit of a seed counts)
            other = dict(case["wparams"], random_seed=case["wparams"]["random_seed"] +
                         rng.choice([1 + rng.randint(0, 1000), 1 + rng.randint(0, 1000), 2 ** 32, 2 ** 64, 3 * 2 ** 32]))
            d2, n2 = workload_digest(other, {}, case["ticks"])
            mon.count("seed_pairs_checked")
            multi_choice = (case["wparams"]["num_operators"] > 1 and case["wparams"]["query_prob"] < 1) or len([x for x in (case["wparams"]["interactive_prob"], case["wparams"]["query_prob"], case["wparams"]["batch_prob"]) if x > 0]) > 1
            if not multi_choice:
                # one priority class and single-operator pipelines: only the gaps are drawn, and for short means
                # every draw truncates to the same tick count - equal workloads are then legitimate
                mon.count("seed_pairs_without_random_content")
            if d2 == base and n >= 3 and multi_choice:
                mon.fail("seeds-give-same-workload", f"seeds {case['wparams']['random_seed']} and {other['random_seed']} generate the identical workload ({n} pipelines)")
            again, _ = workload_digest(case["wparams"], {}, case["ticks"])
            if again != base:
                mon.fail("generator-not-reproducible", "two generators with equal parameters produced different workloads")
            mon.hit({"pipelines": n, "digest": base[:12]})
        return
    lg1, h1, st1 = run_once(case)
    # unrelated simulations in between (process-global state: container counter, registries, uuids)
    rng = rng_for("c07-between", case.get("_cfg"))
    for _ in range(2):
        run_once(_sim.random_sim_case(rng, small=True, max_ticks=80))
    if position_for_rollover(h1):
        mon.count("second_run_positioned_at_id_rollover")
    # every second pair: the repetition runs next to a second live simulation (created 3 ticks into the run)
    with_foreign = (case.get("_cfg", 0) % 2 == 1)
    lg2, h2, st2 = run_once(case, foreign_from=3 if with_foreign else None)
    if h2.foreign is not None and h2.foreign_error is None:
        mon.count("paired_with_second_live_simulation")
    if h2.foreign_error is not None:
        mon.fail("concurrent-simulation-raised", "the second simulation stepped next to the repetition raised: "
                 + h2.foreign_error.strip().splitlines()[-1])
    mon.count("paired_runs_same_process")
    per_pool = {}
    for ci in h1.conts.values():
        if ci.status in ("ok", "failed"):
            per_pool[ci.pool] = per_pool.get(ci.pool, 0) + 1
    if per_pool and max(per_pool.values()) > 4096:
        mon.count("paired_with_more_than_4096_exits_on_one_pool")
    if h1.n_failed:
        mon.count("paired_with_failures")
    if h1.n_suspended:
        mon.count("paired_with_suspensions")
        ends = {}
        for ci in h1.conts.values():
            if ci.status == "suspended":
                ends[ci.ended] = ends.get(ci.ended, 0) + 1
        if any(v > 1 for v in ends.values()):
            mon.count("paired_with_simultaneous_suspension_ends")
    if case["algo"] == "overbook" and h1.n_failed:
        fails = {}
        for ci in h1.conts.values():
            if ci.status == "failed":
                fails.setdefault(ci.ended, []).append(ci)
        # a kill tick in which a container with the same allocation and age survived: a score tie was broken
        for t, lst in fails.items():
            if any(o.status != "failed" or o.ended != t for o in h1.conts.values()
                   if o.born == lst[0].born and o.pool == lst[0].pool and (o.ended is None or o.ended >= t)):
                mon.count("paired_with_pool_level_ties")
                break
    if lg1.lines != lg2.lines:
        k = next((i for i, (a, b) in enumerate(zip(lg1.lines, lg2.lines)) if a != b), min(len(lg1.lines), len(lg2.lines)))
        mon.fail("rerun-differs", f"second run in the same process diverges at event {k}: "
                                  f"{lg1.lines[k] if k < len(lg1.lines) else None} vs {lg2.lines[k] if k < len(lg2.lines) else None}",
                 algo=case["algo"])
    if st1 != st2:
        mon.fail("rerun-stats-differ", f"statistics of the second run differ: {st1[:200]} vs {st2[:200]}", algo=case["algo"])
    mon.data.setdefault("digests", {})[str(case["_cfg"])] = [lg1.digest(), hashlib.sha256(st1.encode()).hexdigest(), len(lg1.lines),
                                                             case["algo"]]
    if h1.conts:
        mon.hit({"algo": case["algo"], "events": len(lg1.lines), "digest": lg1.digest()[:12], "failures": h1.n_failed,
                 "suspensions": h1.n_suspended})


def merge(results, tier, seed):
    """Parent side: compare the per-configuration digests of all shard processes."""
    viol = []
    ref = {}
    n = 0
    for r in results:
        if "inconclusive" in r:
            continue
        for cfg, (dg, sd, nev, algo) in (r.get("data", {}).get("digests") or {}).items():
            if cfg not in ref:
                ref[cfg] = (dg, sd, r.get("hashseed"), r["shard"])
                continue
            n += 1
            if ref[cfg][0] != dg or ref[cfg][1] != sd:
                viol.append({"property": ID, "kind": "processes-differ",
                             "msg": f"configuration {cfg} ({algo}): process with PYTHONHASHSEED={r.get('hashseed')} (shard {r['shard']}) "
                                    f"produced a different event log / statistics than the one with {ref[cfg][2]} (shard {ref[cfg][3]})",
                             "detail": {"cfg": cfg, "algo": algo}, "case": cfg_list(tier, seed)[int(cfg)]})
    seen = set()
    out = []
    for v in viol:
        if v["detail"]["cfg"] not in seen:
            seen.add(v["detail"]["cfg"])
            out.append(v)
    return {"violations": out[:5], "counters": {"cross_process_comparisons": n}}
