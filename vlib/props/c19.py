"""C19 - the REST bridge is transparent and keeps its protocol promises.

SIM over loop-back HTTP: an http.server on 127.0.0.1:<ephemeral> runs in a thread of the
worker and plays the external scheduler (JSON-only decision sources: a port of go/naive, a
random admissible policy incl. retries and suspensions, multi-operator packing).  While a
request is served the simulator thread is blocked in requests.post, so the handler compares
the request body with the live simulator state at that instant (ground truth): results of
the last tick, pool and container figures, operator states; payload keys are checked against
the documented set and a paired serialisation shows that nothing depends on segment values.
Protocol clauses per request: new / other disjoint, complete-once-then-gone, a call in every
tick with an arrival or result, idle calls at least one poll interval apart, tick strictly
increasing at a constant offset.  Afterwards the recorded decisions are replayed by an
in-process scheduler on the same workload: canonical event logs and statistics must match."""
import json
import re
import threading
import time
from http.server import BaseHTTPRequestHandler, HTTPServer

from ..core import rng_for
from .. import gen
from . import _sim

ID = "C19"
LEVEL = "exploration"
ANCHORS = ["eudoxia/scheduler/rest.py", "eudoxia/workload/pipeline.py", "eudoxia/executor/resource_pool.py",
           "eudoxia/executor/container.py", "eudoxia/executor/assignment.py"]
RULE = ("cases = REST-driven simulations: decision source in {naive port, random admissible incl. suspensions/retries, multi-operator "
        "packing} x scripted DAG workloads x poll interval in {0, one tick, 1 s, never reached} x tick rates; each followed by an "
        "in-process replay of the recorded decisions; non-trivial = a run with >= 1 request that carried results and >= 1 completed "
        "pipeline; distinct = distinct configurations")
ASSUMPTIONS = [
    "Python side of the protocol only: go/naive and go/eudoxia/types.go cannot be executed here (no Go toolchain); JSON tags parsed from types.go are compared with observed payload keys and reported, without affecting the verdict",
    "container current_memory_gb is observed usage, not a resource need, and is allowed in payloads",
    "the payload's tick is 1-based today; only strict monotonicity and a constant offset from the simulator tick are required",
    "idle-call spacing is judged exactly (1e-9 relative slack for float arithmetic): two idle calls are at least rest_poll_interval of simulated time apart",
]
NSHARDS = {"quick": 16, "thorough": 16}
N = {"quick": 7, "thorough": 700}
REQUIRE = {"containers_mixing_two_pipelines": 100, "requests": 2000, "requests_with_results": 400, "requests_idle": 100, "pipelines_reported_complete": 150,
           "paired_runs_compared": 60, "assignments_decoded": 500, "suspensions_decoded": 10, "paired_serialisations": 200,
           "pool_snapshots_compared": 2000}

def nid(x):
    """Identifier comparison independent of the textual encoding of a UUID (dashed / hex / case)."""
    return str(x).replace("-", "").lower()


OP_KEYS = {"id", "state", "is_assignable_state", "parents_complete"}
PIPE_KEYS = {"pipeline_id", "priority", "arrival_tick", "is_complete", "has_failures", "operators"}
CONT_KEYS = {"container_id", "pipeline_id", "operator_ids", "cpu", "ram_gb", "current_memory_gb", "priority"}
POOL_KEYS = {"pool_id", "max_cpu", "max_ram_gb", "avail_cpu", "avail_ram_gb", "consumed_ram_gb", "active_containers",
             "suspending_containers", "suspended_containers"}
RESULT_KEYS = {"ops", "cpu", "ram", "priority", "pool_id", "container_id", "error"}
TOP_KEYS = {"tick", "sim_time_seconds", "results", "new_pipelines", "other_pipelines", "pools"}


def cases(tier, seed, shard, nshards):
    rng = rng_for(ID, seed, shard)
    for i in range(N[tier]):
        tps = rng.choice([1, 2, 5, 10, 20, 100, 7, 64, 1000])
        ticks = rng.choice([60, 120, 250])
        pools = rng.choice([1, 2, 3, 3, 8])
        cpus = rng.choice([2, 4, 10, 1])
        ram = rng.choice([4, 16, 64, 2.5])
        arrivals = {}
        for j in range(rng.choice([2, 5, 10, 16])):
            t = rng.randrange(0, int(ticks * 0.6))
            arrivals.setdefault(str(t), []).append(
                gen.simple_pipeline(rng, f"p{j}", tps, nops=rng.choice([1, 2, 3, 5]), mode="safe", cpus_hint=rng.choice([1, 2]),
                                    mem_ref=ram * rng.choice([0.02, 0.1, 0.3, 0.7]), maxn=rng.choice([2, 5])))
        if rng.random() < 0.3:
            # a pipeline without operators is complete the moment it is announced
            arrivals.setdefault(str(rng.randrange(0, int(ticks * 0.5))), []).append(
                {"pid": f"noop{i}", "prio": rng.choice(gen.PRIOS), "ops": []})
        poll = rng.choice(["zero", "tick", "second", "never", "frac", "frac", "float"])
        interval = {"zero": 0.0, "tick": 1.0 / tps, "second": 1.0, "never": 10.0 * ticks / tps,
                    "frac": (rng.randint(1, 6) + rng.choice([0.25, 0.5, 0.75])) / tps,
                    "float": rng.choice([0.29, 0.57, 1.13, 0.07]) * (100.0 / tps)}[poll]
        yield {"kind": "rest", "policy": rng.choice(["naive", "random", "random", "pack"]), "policy_seed": rng.getrandbits(32),
               "params": {"duration": ticks / tps, "ticks_per_second": tps, "num_pools": pools, "cpus_per_pool": cpus,
                          "ram_gb_per_pool": ram, "multi_operator_containers": True, "rest_poll_interval": interval,
                          "allow_memory_overcommit": rng.random() < 0.2},
               "workload": {"type": "script", "arrivals": arrivals}, "_poll": poll}
    if tier == "thorough" or shard < 2:
        # long REST run: ~2,500 calls, several hundred pipelines announced and completed
        tps = 10
        ticks = 2500
        arrivals = {}
        for j in range(1500):
            # one arrival in every tick: every call carries a new pipeline (whatever happens "in the call after
            # the N-th completion" then always meets fresh work)
            arrivals.setdefault(str(j), []).append(
                gen.simple_pipeline(rng, f"L{j}", tps, nops=rng.choice([1, 2, 3]), mode="safe", cpus_hint=1, mem_ref=0.3, maxn=3))
        yield {"kind": "rest", "policy": rng.choice(["random", "pack"]), "policy_seed": rng.getrandbits(32),
               "params": {"duration": ticks / tps, "ticks_per_second": tps, "num_pools": 2, "cpus_per_pool": 8, "ram_gb_per_pool": 32,
                          "multi_operator_containers": True, "rest_poll_interval": 0.0, "allow_memory_overcommit": False},
               "workload": {"type": "script", "arrivals": arrivals}, "_poll": "zero-long"}
    yield {"kind": "paired-serialisation", "seed": rng.getrandbits(32), "n": 20 if tier == "quick" else 200}


# --------------------------------------------------------------------------- decision sources (JSON only)


class Policy:
    def __init__(self, kind, seed):
        import random
        self.kind = kind
        self.rng = random.Random(seed)

    def decide(self, req):
        rng = self.rng
        pipes = list(req["new_pipelines"]) + list(req["other_pipelines"])
        opstate = {}
        for p in pipes:
            for o in p["operators"]:
                opstate[o["id"]] = o
        assigned = set()
        asg, sus = [], []
        if self.kind == "naive":
            for pool in req["pools"]:
                if pool["avail_cpu"] <= 0 or pool["avail_ram_gb"] <= 0:
                    continue
                done = False
                for p in pipes:
                    if p["is_complete"] or p["has_failures"]:
                        continue
                    for o in p["operators"]:
                        if o["is_assignable_state"] and o["parents_complete"] and o["id"] not in assigned:
                            asg.append({"operator_ids": [o["id"]], "cpu": pool["avail_cpu"], "ram_gb": pool["avail_ram_gb"],
                                        "pool_id": pool["pool_id"], "priority": p["priority"], "is_resume": False, "force_run": False})
                            assigned.add(o["id"])
                            done = True
                            break
                    if done:
                        break
            return sus, asg
        # suspensions: a container sits at an operator boundary iff it has a completed operator and
        # its first unfinished operator is still 'assigned' (not running)
        if self.kind in ("random", "pack"):
            for pool in req["pools"]:
                for c in pool["active_containers"]:
                    sts = [opstate.get(oid, {}).get("state") for oid in c["operator_ids"]]
                    rest = [s for s in sts if s != "completed"]
                    if len(rest) < len(sts) and rest and rest[0] == "assigned" and all(s == "assigned" for s in rest) and rng.random() < 0.5:
                        sus.append({"container_id": c["container_id"], "pool_id": pool["pool_id"]})
        for pool in req["pools"]:
            fc, fr = pool["avail_cpu"], pool["avail_ram_gb"]
            tries = rng.choice([1, 2, 3])
            for _ in range(tries):
                if fc < 1 or fr <= 0.01:
                    break
                cands = [p for p in pipes if not p["is_complete"]]
                rng.shuffle(cands)
                chosen = None
                for p in cands:
                    ready = [o for o in p["operators"] if o["is_assignable_state"] and o["parents_complete"] and o["id"] not in assigned]
                    if not ready:
                        continue
                    if self.kind == "pack" or rng.random() < 0.3:
                        # dependency-closed run in payload (topological) order
                        ops, have = [], set()
                        comp = {o["id"] for o in p["operators"] if o["state"] == "completed"}
                        # parents are not in the payload; packing uses only the ready set plus list order of assignable ones
                        ops = [o["id"] for o in ready][:rng.choice([1, 2, 3])]
                    else:
                        ops = [rng.choice(ready)["id"]]
                    chosen = (p, ops)
                    break
                if not chosen:
                    break
                p, ops = chosen
                if self.kind == "pack" and rng.random() < 0.35:
                    # one container for operators of two pipelines (admissible: containers are lists of operators);
                    # the first pipeline then finishes in the middle of the container's life
                    for q in cands:
                        if q is p:
                            continue
                        more = [o["id"] for o in q["operators"] if o["is_assignable_state"] and o["parents_complete"] and o["id"] not in assigned]
                        if more:
                            ops = list(ops) + more[:rng.choice([1, 2])]
                            self.mixed = getattr(self, "mixed", 0) + 1
                            break
                cpu = max(1, int(fc * rng.choice([0.25, 0.5, 1.0])))
                ram = fr * rng.choice([0.25, 0.5, 1.0])
                if ram >= 1:
                    ram = float(int(ram)) if rng.random() < 0.5 else ram
                asg.append({"operator_ids": ops, "cpu": cpu, "ram_gb": ram, "pool_id": pool["pool_id"], "priority": p["priority"],
                            "is_resume": False, "force_run": False})
                assigned.update(ops)
                fc -= cpu
                fr -= ram
        return sus, asg


# --------------------------------------------------------------------------- recording server


class Recorder:
    def __init__(self, policy, mon):
        self.policy = policy
        self.mon = mon
        self.lock = threading.Lock()
        self.requests = []       # (sim tick, body summary)
        self.decisions = {}      # sim tick -> (suspensions by creation ordinal, assignments by (pipeline id, op index))
        self.init_calls = 0
        self.problems = []
        self.reported_complete = {}
        self.seen_new = set()
        self.known = set()
        self.last_payload_tick = None
        self.offset = None
        self.call_ticks = []
        self.error = None

    def problem(self, kind, msg, **detail):
        with self.lock:
            self.problems.append((kind, msg, detail))

    def keys_check(self, d, documented, what):
        """A documented field that is missing means the call does not carry the state it promises.
        Extra keys are only counted: whether they leak resource needs is decided by the paired
        serialisation (same structure, other segment values => identical payload)."""
        missing = documented - set(d.keys())
        if missing:
            self.problem("payload-keys-missing", f"{what} payload lacks documented field(s) {sorted(missing)}")
        extra = set(d.keys()) - documented
        if extra:
            self.mon.count("extra_payload_keys:" + what + ":" + ",".join(sorted(extra)))

    def handle(self, path, body):
        from ..simworld import Harness
        h = Harness.current
        if path == "/init":
            self.init_calls += 1
            if not isinstance(body, dict) or "params" not in body:
                self.problem("init-payload", "POST /init without 'params'")
            return "OK"
        req = body
        t = h.tick
        try:
            self.check_request(h, t, req)
        except Exception as e:   # a monitor bug must not masquerade as a verdict
            import traceback
            self.error = traceback.format_exc()[-1500:]
        sus, asg = self.policy.decide(req)
        # record decisions in a run-independent form
        uid = {}
        for p in h.pipelines:
            for i, op in enumerate(p.runtime_status().operator_states.keys()):
                uid[nid(op.id)] = (p.pipeline_id, i)
        order = sorted(h.conts.values(), key=lambda c: (c.born, int(str(c.cid)[1:]) if str(c.cid)[1:].isdigit() else 0))
        ordinal = {c.cid: i for i, c in enumerate(order)}
        self.decisions[t] = ([(ordinal.get(x["container_id"]), x["pool_id"]) for x in sus],
                             [([uid[nid(o)] for o in a["operator_ids"]], a["cpu"], a["ram_gb"], a["pool_id"], a["priority"]) for a in asg])
        return {"suspensions": sus, "assignments": asg}

    # ---- per-request checks
    def check_request(self, h, t, req):
        mon = self.mon
        mon.count("requests")
        self.call_ticks.append(t)
        self.keys_check(req, TOP_KEYS, "request")
        # (e) tick
        pt = req["tick"]
        if self.last_payload_tick is not None and pt <= self.last_payload_tick:
            self.problem("tick-not-increasing", f"payload tick {pt} after {self.last_payload_tick}")
        self.last_payload_tick = pt
        if self.offset is None:
            self.offset = pt - t
        elif pt - t != self.offset:
            self.problem("tick-offset-changed", f"payload tick {pt} at simulator tick {t}; offset was {self.offset}")
        tps = h.params["ticks_per_second"]
        if abs(req["sim_time_seconds"] - pt / tps) > 1e-9 * max(1, pt / tps):
            self.problem("sim-time", f"sim_time_seconds {req['sim_time_seconds']} for tick {pt} at {tps} ticks/s")
        # (a) results = results of the last executor tick
        truth = h.cur_results_for_round
        got = req["results"]
        if len(got) != len(truth):
            self.problem("results-count", f"tick {t}: payload carries {len(got)} results, the last tick produced {len(truth)}")
        else:
            for g, r in zip(got, truth):
                self.keys_check(g, RESULT_KEYS, "result")
                want = {"ops": [nid(o.id) for o in r.ops], "cpu": r.cpu, "ram": r.ram, "priority": r.priority.name,
                        "pool_id": r.pool_id, "container_id": r.container_id, "error": r.error}
                g = dict(g, ops=[nid(x) for x in g.get("ops", [])])
                if any(g.get(k) != v for k, v in want.items()):
                    self.problem("results-content", f"tick {t}: result {g} differs from the real one {want}")
        if got:
            mon.count("requests_with_results")
        # pipelines: disjointness, completeness protocol, operator states
        new_ids = [p["pipeline_id"] for p in req["new_pipelines"]]
        oth_ids = [p["pipeline_id"] for p in req["other_pipelines"]]
        if set(new_ids) & set(oth_ids) or len(set(new_ids)) != len(new_ids) or len(set(oth_ids)) != len(oth_ids):
            self.problem("new-other-overlap", f"tick {t}: new {new_ids} and other {oth_ids} are not disjoint sets")
        truth_new = [p.pipeline_id for p in h.cur_new_for_round]
        if new_ids != truth_new:
            self.problem("new-pipelines", f"tick {t}: new_pipelines {new_ids}, arrived in this tick {truth_new}")
        live = {p.pipeline_id: p for p in h.pipelines}
        for pid in new_ids:
            if pid in self.known:
                self.problem("announced-twice", f"pipeline {pid} announced as new again")
            self.known.add(pid)
        for pid in oth_ids:
            if pid not in self.known:
                self.problem("other-unknown", f"pipeline {pid} in other_pipelines was never announced as new")
            if pid in self.reported_complete:
                self.problem("listed-after-complete", f"pipeline {pid} listed again after it was reported complete (tick {self.reported_complete[pid]})")
        # every known, not yet completed-and-reported pipeline must be listed
        for pid in self.known:
            if pid in self.reported_complete or pid in new_ids:
                continue
            if pid not in oth_ids:
                self.problem("pipeline-dropped", f"tick {t}: known pipeline {pid} missing from other_pipelines before it was reported complete")
        for pd in list(req["new_pipelines"]) + list(req["other_pipelines"]):
            self.keys_check(pd, PIPE_KEYS, "pipeline")
            p = live.get(pd["pipeline_id"])
            if p is None:
                self.problem("unknown-pipeline", f"payload names pipeline {pd['pipeline_id']} which never arrived")
                continue
            rs = p.runtime_status()
            ops = list(rs.operator_states.keys())
            complete = all(st.value == "completed" for st in rs.operator_states.values())
            if pd["is_complete"] != complete:
                self.problem("is-complete", f"pipeline {p.pipeline_id}: is_complete={pd['is_complete']}, really {complete}")
            if pd["is_complete"]:
                self.reported_complete[pd["pipeline_id"]] = t
                mon.count("pipelines_reported_complete")
            if pd["priority"] != p.priority.name or pd["arrival_tick"] != h.arrival_tick[id(p)]:
                self.problem("pipeline-fields", f"pipeline {p.pipeline_id}: priority/arrival {pd['priority']}/{pd['arrival_tick']}")
            if pd["has_failures"] != any(st.value == "failed" for st in rs.operator_states.values()):
                self.problem("has-failures", f"pipeline {p.pipeline_id}: has_failures={pd['has_failures']}")
            if len(pd["operators"]) != len(ops):
                self.problem("operator-count", f"pipeline {p.pipeline_id}: {len(pd['operators'])} operators in payload, {len(ops)} real")
                continue
            by_id = {nid(o.id): o for o in ops}
            for od in pd["operators"]:
                self.keys_check(od, OP_KEYS, "operator")
                o = by_id.get(nid(od["id"]))
                if o is None:
                    self.problem("operator-id", f"operator id {od['id']} not in pipeline {p.pipeline_id}")
                    continue
                st = rs.operator_states[o].value
                if od["state"] != st:
                    self.problem("operator-state", f"operator of {p.pipeline_id}: payload {od['state']}, real {st}")
                if od["is_assignable_state"] != (st in ("pending", "failed")):
                    self.problem("operator-assignable", f"operator of {p.pipeline_id} ({st}): is_assignable_state={od['is_assignable_state']}")
                pc = all(rs.operator_states[q].value == "completed" for q in o.parents)
                if od["parents_complete"] != pc:
                    self.problem("operator-parents", f"operator of {p.pipeline_id}: parents_complete={od['parents_complete']}, real {pc}")
        # pools and containers
        if len(req["pools"]) != len(h.ex.pools):
            self.problem("pool-count", f"{len(req['pools'])} pools in payload, {len(h.ex.pools)} real")
        for pd, pool in zip(req["pools"], h.ex.pools):
            mon.count("pool_snapshots_compared")
            self.keys_check(pd, POOL_KEYS, "pool")
            want = {"pool_id": pool.pool_id, "max_cpu": pool.max_cpu_pool, "max_ram_gb": pool.max_ram_pool,
                    "avail_cpu": pool.avail_cpu_pool, "avail_ram_gb": pool.avail_ram_pool, "consumed_ram_gb": pool.get_consumed_ram_gb()}
            for k, v in want.items():
                if pd.get(k) != v:
                    self.problem("pool-figures", f"tick {t} pool {pool.pool_id}: {k} = {pd.get(k)}, real {v}")
            for key, lst in (("active_containers", pool.active_containers), ("suspending_containers", pool.suspending_containers),
                             ("suspended_containers", pool.suspended_containers)):
                got_c = pd.get(key, [])
                if [c.get("container_id") for c in got_c] != [c.container_id for c in lst]:
                    self.problem("container-lists", f"tick {t} pool {pool.pool_id} {key}: {[c.get('container_id') for c in got_c]} vs real {[c.container_id for c in lst]}")
                    continue
                for cd, c in zip(got_c, lst):
                    self.keys_check(cd, CONT_KEYS, "container")
                    wc = {"operator_ids": [nid(o.id) for o in c.operators], "cpu": c.assignment.cpu, "ram_gb": c.assignment.ram,
                          "current_memory_gb": c.get_current_memory_usage(), "priority": c.priority.name}
                    cd = dict(cd, operator_ids=[nid(x) for x in cd.get("operator_ids", [])])
                    for k, v in wc.items():
                        if cd.get(k) != v:
                            self.problem("container-figures", f"container {c.container_id}: {k} = {cd.get(k)}, real {v}")
        with self.lock:
            self.requests.append((t, bool(got), bool(new_ids), pt))


def make_server(rec):
    class H(BaseHTTPRequestHandler):
        protocol_version = "HTTP/1.0"

        def do_POST(self):
            n = int(self.headers.get("Content-Length", "0"))
            raw = self.rfile.read(n)
            try:
                body = json.loads(raw)
                out = rec.handle(self.path, body)
                data = out.encode() if isinstance(out, str) else json.dumps(out).encode()
                self.send_response(200)
                self.send_header("Content-Type", "application/json")
                self.send_header("Content-Length", str(len(data)))
                self.end_headers()
                self.wfile.write(data)
            except Exception as e:
                import traceback
                rec.error = traceback.format_exc()[-1500:]
                self.send_response(500)
                self.end_headers()

        def log_message(self, *a):
            pass

    srv = HTTPServer(("127.0.0.1", 0), H)
    th = threading.Thread(target=srv.serve_forever, kwargs={"poll_interval": 0.05}, daemon=True)
    th.start()
    return srv, th


# --------------------------------------------------------------------------- in-process replay


_script_registered = False
_script_state = {}


def ensure_script_scheduler():
    global _script_registered
    if _script_registered:
        return
    from eudoxia.scheduler.decorators import register_scheduler_init, register_scheduler
    from eudoxia.executor.assignment import Assignment, Suspend
    from eudoxia.utils import Priority

    @register_scheduler_init(key="verifscript")
    def _init(s):
        s.vtick = -1

    @register_scheduler(key="verifscript")
    def _round(s, results, pipelines):
        from ..simworld import Harness
        h = Harness.current
        t = h.tick
        dec = _script_state["decisions"].get(t)
        if not dec:
            return [], []
        sus_d, asg_d = dec
        pid = {p.pipeline_id: p for p in h.pipelines}
        order = sorted(h.conts.values(), key=lambda c: (c.born, int(str(c.cid)[1:]) if str(c.cid)[1:].isdigit() else 0))
        sus = [Suspend(order[o].cid, pool) for o, pool in sus_d]
        asg = []
        for ops, cpu, ram, pool, prio in asg_d:
            real = [list(pid[p_].runtime_status().operator_states.keys())[i] for p_, i in ops]
            asg.append(Assignment(ops=real, cpu=cpu, ram=ram, priority=Priority[prio], pool_id=pool,
                                  pipeline_id=real[0].pipeline.pipeline_id, is_resume=False, force_run=False))
        return sus, asg

    _script_registered = True


def run_rest(case, mon):
    from ..simworld import Harness, Monitor
    from ..simmon import EventLogMon

    class Tap(Monitor):
        """Remembers what the scheduler round was handed (ground truth for the request)."""

        def sched_pre(self, h, t, s, results, pipelines):
            h.cur_results_for_round = list(results)
            h.cur_new_for_round = list(pipelines)
            self.rounds.append((t, bool(results), bool(pipelines)))

        def sched_post(self, h, t, s, sus, asg):
            mon.count("assignments_decoded", len(asg))
            mon.count("suspensions_decoded", len(sus))

        def __init__(self):
            self.rounds = []

    rec = Recorder(Policy(case["policy"], case["policy_seed"]), mon)
    srv, th = make_server(rec)
    try:
        port = srv.server_address[1]
        params = dict(case["params"])
        params["rest_scheduler_addr"] = f"127.0.0.1:{port}"
        tap = Tap()
        lg = EventLogMon()
        h = Harness(params, "rest", gen.strip(case["workload"]), [tap, lg])
        h.cur_results_for_round = []
        h.cur_new_for_round = []
        h.run()
    finally:
        srv.shutdown()
        srv.server_close()
        th.join(timeout=5)
    if rec.error:
        mon.error("C19 recorder failed: " + rec.error)
        return
    if h.exc is not None:
        # an inadmissible decision of my own policy is not the bridge's fault; anything else is
        msg = f"{type(h.exc).__name__}: {h.exc}"
        mon.count("rest_runs_raised")
        mon.fail("rest-run-raised", f"REST-driven run raised {msg} at tick {h.tick} ({h.exc_where}); last decision {h.last_decision}",
                 traceback=h.exc_tb)
        return
    for kind, msg, detail in rec.problems[:8]:
        mon.fail(kind, msg, **detail)
    if rec.init_calls != 1:
        mon.fail("init-calls", f"/init called {rec.init_calls} times")
    # (c) cadence
    tps = params["ticks_per_second"]
    interval_ticks = params["rest_poll_interval"] * tps
    called = set(rec.call_ticks)
    last = None
    # the bridge's clock starts at sim time 0 = before the first tick
    prev_call = None
    for (t, had_res, had_new) in tap.rounds:
        need = had_res or had_new
        if need and t not in called:
            mon.fail("call-missing", f"tick {t}: something arrived or finished but the external scheduler was not called")
            break
        if t in called and not need:
            mon.count("requests_idle")
            ref = prev_call if prev_call is not None else -1
            if (t - ref) < interval_ticks * (1 - 1e-9) - 1e-9:
                mon.fail("idle-call-too-early", f"idle call at tick {t}, previous call at tick {ref}, poll interval {interval_ticks} ticks")
                break
        if t in called:
            prev_call = t
    # (d) in-process replay of the recorded decisions
    ensure_script_scheduler()
    _script_state["decisions"] = rec.decisions
    lg2 = EventLogMon()
    p2 = dict(case["params"])
    h2 = Harness(p2, "verifscript", gen.strip(case["workload"]), [lg2])
    h2.run()
    mon.count("paired_runs_compared")
    if h2.exc is not None:
        mon.fail("replay-raised", f"in-process replay of the HTTP decisions raised {type(h2.exc).__name__}: {h2.exc} (tick {h2.tick})")
    else:
        if lg.lines != lg2.lines:
            k = next((i for i, (a, b) in enumerate(zip(lg.lines, lg2.lines)) if a != b), min(len(lg.lines), len(lg2.lines)))
            mon.fail("http-vs-inprocess-log", f"event logs diverge at event {k}: HTTP {lg.lines[k] if k < len(lg.lines) else None} vs "
                                              f"in-process {lg2.lines[k] if k < len(lg2.lines) else None}")
        a, b = h.stats.to_dict(), h2.stats.to_dict()
        if json.dumps(a, sort_keys=True, default=str) != json.dumps(b, sort_keys=True, default=str):
            mon.fail("http-vs-inprocess-stats", f"statistics differ: HTTP {a} vs in-process {b}")
    if any(r[1] for r in rec.requests) and rec.reported_complete:
        mon.hit({"policy": case["policy"], "poll": case.get("_poll"), "requests": len(rec.requests),
                 "completed_reported": len(rec.reported_complete), "containers": len(h.conts), "tick_offset": rec.offset})
    mon.count("poll:" + str(case.get("_poll")))
    mon.count("policy:" + case["policy"])
    mon.count("containers_mixing_two_pipelines", getattr(rec.policy, "mixed", 0))


def go_type_tags():
    """JSON tags per struct parsed from go/eudoxia/types.go (the Go side cannot be executed here)."""
    import os
    from .. import env
    path = os.path.join(env.REPO, "go", "eudoxia", "types.go")
    tags = {}
    try:
        cur = None
        for line in open(path):
            m = re.match(r"\s*type\s+(\w+)\s+struct", line)
            if m:
                cur = m.group(1)
                tags[cur] = set()
                continue
            if cur and line.strip().startswith("}"):
                cur = None
                continue
            m = re.search(r'`json:"([^",]+)', line)
            if cur and m:
                tags[cur].add(m.group(1))
    except OSError:
        return {}
    return tags


def compare_with_go_types(mon):
    """Evidence only (no verdict): do the documented Python payload keys equal the Go struct tags?"""
    tags = go_type_tags()
    pairs = {"ScheduleRequest": TOP_KEYS, "Pipeline": PIPE_KEYS, "Operator": OP_KEYS, "Pool": POOL_KEYS,
             "Container": CONT_KEYS, "ExecutionResult": RESULT_KEYS}
    for name, keys in pairs.items():
        if name not in tags:
            mon.count("go_types:struct_not_found:" + name)
        elif tags[name] == keys:
            mon.count("go_types:tags_equal_python_keys:" + name)
        else:
            mon.count("go_types:tags_differ:" + name + ":" + ",".join(sorted(tags[name] ^ keys)))


def run_paired_serialisation(case, mon):
    compare_with_go_types(mon)
    """Same structure, different segment values => identical pipeline payloads (ids aside)."""
    import random
    from .. import sut
    rng = random.Random(case["seed"])
    for i in range(case["n"] * 10):
        spec = gen.simple_pipeline(rng, "s", rng.choice([1, 10, 100]), nops=rng.choice([1, 2, 4, 7]))
        spec2 = json.loads(json.dumps(gen.strip(spec)))
        for o in spec2["ops"]:
            for s in o["segs"]:
                s["cpu"] = s["cpu"] * 3 + 1
                s["read"] = s["read"] + 7.5
                s["mem"] = 11.0 if s["mem"] is None else None
                s["law"] = "squared" if s["law"] != "squared" else "const"
        outs = []
        for sp in (gen.strip(spec), spec2):
            p, ops = sut.build_pipeline(sp)
            p.runtime_status().record_arrival(3)
            d = p.to_dict()
            txt = json.dumps(d, sort_keys=True)
            seen = {}

            def rep(m):
                key = nid(m.group(0))
                if key not in seen:
                    seen[key] = f"ID{len(seen)}"
                return seen[key]

            # identifiers are random per pipeline object: compare modulo renaming by first appearance
            txt_ids = [nid(o.id) for o in ops]
            txt = re.sub(r"[0-9a-fA-F]{8}-?[0-9a-fA-F]{4}-?[0-9a-fA-F]{4}-?[0-9a-fA-F]{4}-?[0-9a-fA-F]{12}", rep, txt)
            outs.append(txt)
        mon.count("paired_serialisations")
        if outs[0] != outs[1]:
            mon.fail("payload-depends-on-needs", f"pipeline payload changes with segment values: {outs[0][:300]} vs {outs[1][:300]}")
            break
    mon.hit({"paired": case["n"] * 10})


def run_case(case, mon):
    if case["kind"] == "paired-serialisation":
        return run_paired_serialisation(case, mon)
    return run_rest(case, mon)
