"""C03 - pool CPU and RAM are conserved: never lost, never double-freed, never oversold.

EXEC: adaptive command scripts (batches sized below / at / above the free amount, legal and
overselling, suspensions at random boundaries, kills and completions in the same tick).
After every tick free + held == capacity is recomputed from the live container lists and
compared with an independent ledger (M4) that releases each allocation exactly once, in the
tick the model says the container ends.  SIM: every shipped scheduler under the same
invariant (kind 'sim')."""
from ..core import rng_for
from . import _exec

ID = "C03"
LEVEL = "exploration"
ANCHORS = ["eudoxia/executor/resource_pool.py", "eudoxia/executor/executor.py", "eudoxia/executor/container.py"]
RULE = ("cases = adaptive command scripts against 1..4 pools (integer and float sizes, with/without overcommit, tick rates "
        "1..100000) plus full simulations under naive/priority/priority-pool/overbook/template; non-trivial = at least one "
        "allocation was released (completion, failure or end of suspension) or an overselling batch was judged; "
        "distinct = distinct recorded scripts / simulation configurations")
ASSUMPTIONS = [
    "ledger M4 and container model M3 written independently of the repository",
    "sums compared within 1e-9 relative of capacity (RAM may be a float)",
    "after a rejected command the case ends: Executor.run_one_tick walks pools in order, so a rejection in pool k leaves pools < k advanced, a state the property does not speak about; 'rejected as a whole' is judged on the rejecting pool",
]
NSHARDS = {"quick": 16, "thorough": 16}
N_MIX = {"quick": 220, "thorough": 12000}
N_SIM = {"quick": 14, "thorough": 900}
REQUIRE = {"scale:script_with_more_than_1000_exits_on_one_pool": 1, "scale:script_of_more_than_4096_ticks": 1, "container_succeeded": 500, "container_failed": 200, "suspension_finished": 100,
           "rejected:oversell-cpu": 5, "rejected:oversell-ram": 5, "reject_left_pool_unchanged": 10,
           "sim_ticks_checked": 5000, "sim_runs": 20}


def cases(tier, seed, shard, nshards):
    rng = rng_for(ID, seed, shard)
    for _m in range(2 if tier == "quick" else 40):
        # many containers start in one tick and overload one overcommitted pool: 9 .. 60 pool-level kills in one tick
        yield _exec.mass_start_case(rng)
    if tier == "thorough" or shard < 3:
        for _b in range(1 if tier == "quick" else 2):
            yield _exec.busy_case(rng, 4500 if tier == "quick" else 9000, p_suspend=0.15)
    for i in range(N_MIX[tier]):
        kw = dict(steps=rng.choice([30, 60, 120]), p_bad=rng.choice([0.0, 0.02, 0.05]),
                  bad_kinds=["oversell-cpu", "oversell-ram", "oversell-cpu", "oversell-ram", "suspend-mid", "unknown-pool"],
                  integer_sizes=rng.random() < 0.6, p_suspend=rng.choice([0.0, 0.3, 0.8]),
                  mem_heavy=rng.random() < 0.5, p_unready=0.0)
        if (tier == "thorough" and i % 1500 == 0) or (tier == "quick" and i == 7 and shard < 6):
            # drift / long history: pool tick counters beyond 4096, > 1000 exits per pool, suspensions throughout
            kw.update(steps=9000 if tier == "thorough" else 5000, p_bad=0.0, integer_sizes=rng.random() < 0.5, npipes=1500, drain=2000, mem_heavy=False,
                      p_suspend=0.6, multi=True, tps=rng.choice([20, 100, 1000]), pools=rng.choice([1, 2]))
        yield _exec.mix_case(rng, i, **kw)
    from . import _sim
    for i in range(N_SIM[tier]):
        yield _sim.random_sim_case(rng, kind="sim", small=True, algos=_sim.ALGOS_PLUS)
    if tier == "thorough" and shard < 4:
        yield _sim.regression_case(shard)
    # scale cases: large in one dimension (one per shard for the first shards; all of them, twice, in the thorough tier)
    _kinds = ["many-small", "storm", "many-small"]
    for _j, _kd in enumerate(_kinds * (1 if tier == "quick" else 2)):
        if tier == "thorough" or _j == shard:
            _k, _, _a = _kd.partition(":")
            yield _sim.scale_case(rng, _k, algo=_a or None)
    if tier == "thorough":
        for _k in range(2):
            yield _sim.long_sim_case(rng, algos=_sim.ALGOS_PLUS)


def run_case(case, mon):
    if case["kind"] == "sim":
        from . import _sim
        return _sim.run_sim_case(case, mon, ID)
    w, mine = _exec.run_exec_case(case, mon, ID, driver=_exec.mix_driver(case), max_steps=case.get("driver", {}).get("steps", 60))
    released = w.events.get("container_succeeded", 0) + w.events.get("container_failed", 0) + w.events.get("suspension_finished", 0)
    if released or (w.ended or "").startswith("rejected:oversell"):
        mon.hit({"released": released, "ended": w.ended, "trace_tail": w.trace[-4:]})
