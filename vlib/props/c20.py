"""C20 - trace tools change only arrival times, within their stated bounds.

UNIT through the CLI entry (eudoxia.__main__.main(['tools', ...])) on generated trace files;
input and output files are compared with exact rational arithmetic on the arrival *texts*
(M8).  snap: output = grid point at or below the arrival (never up, by less than one tick,
on-grid values numerically unchanged, snap(snap(x)) == snap(x)), every other cell and the row
count unchanged.  jitter: added amount in [0, delta], reproducible for a seed, different for
different seeds, pipelines written in ascending arrival order (equal arrivals keep their
order), every other cell unchanged.  sensitivity-sample: workload i is the generator's
workload for seed start_seed + i; different samples differ."""
import csv
import io
import os
from fractions import Fraction

from ..core import rng_for
from .. import gen, env
from ..model import snap_tick, exact_ticks, grid_band
from .c13 import finite_decimal, dec_text, HEADER

ID = "C20"
LEVEL = "exploration"
ANCHORS = ["eudoxia/tools.py", "eudoxia/__main__.py", "eudoxia/workload/csv_io.py"]
RULE = ("cases = trace files with arrival texts from classes (exact on-grid decimals, k*fl(1/tps), fl(k/tps), off-grid, near-grid, "
        "large) x tick rates 1..100000 for snap (+ double snap); deltas {0, 1e-9, one tick, 10 s} x seeds for jitter on multi-row "
        "pipelines; sample seeds for sensitivity-sample; non-trivial = a tool run whose output was compared cell by cell; "
        "distinct = distinct input files / settings")
ASSUMPTIONS = [
    "a text within 1e-9 tick of a boundary without being on it may be snapped to either neighbouring grid point (T4)",
    "sensitivity-sample is exercised through tools._sensitivity_task with the simulations stubbed at the harness boundary (sensitivity_command replaced by a recorder); the generated wN.csv files are the observable",
]
NSHARDS = {"quick": 16, "thorough": 16}
N_SNAP = {"quick": 60, "thorough": 3000}
N_JIT = {"quick": 40, "thorough": 2000}
N_SENS = {"quick": 1, "thorough": 20}
REQUIRE = {"snap:on_grid_strict": 5000, "snap:off_grid": 3000, "snap:near_grid": 300, "snap_double_checked": 8000, "snap:beyond_2^23_ticks": 1000,
           "jitter_pipelines": 3000, "jitter_pairs_same_seed": 100, "jitter_pairs_diff_seed": 100, "jitter_reordered_outputs": 50,
           "sensitivity_samples_compared": 32}
TPS_LIST = [1, 2, 3, 5, 7, 10, 20, 60, 100, 1000, 10000, 100000]


def workdir():
    d = os.path.join(env.VERIF_DIR, ".work", f"c20-{os.getpid()}")
    os.makedirs(d, exist_ok=True)
    return d


def cases(tier, seed, shard, nshards):
    rng = rng_for(ID, seed, shard)
    if shard == 0:
        yield {"kind": "snap", "tps": 100, "texts": ["0.29", "0.58", "0.07", "0.57", "1.1500000000000001"], "_directed": True}
    for i in range(N_SNAP[tier]):
        tps = rng.choice(TPS_LIST + [rng.randint(1, 100000)])
        texts = []
        n = rng.randint(20, 200)
        big = rng.random() < 0.25
        top = rng.choice([10 ** 6, 10 ** 7, 5 * 10 ** 7, 4 * 10 ** 8])   # beyond 2**23 ticks a float product has < 1e-9 tick resolution
        for j in range(n):
            k = rng.randint(0, top if big else 5000)
            cls = rng.choice(["decimal", "kfl", "flk", "off", "near+", "near-"])
            if cls == "decimal" and finite_decimal(tps):
                texts.append(dec_text(Fraction(k, tps)))
            elif cls == "kfl":
                texts.append(repr(k * (1.0 / tps)))
            elif cls == "off":
                texts.append(repr(float(Fraction(k * 1000 + rng.randint(1, 999), 1000 * tps))))
            elif cls == "near+":
                texts.append(repr(float((Fraction(k) + Fraction(1, 10 ** 12)) / tps)))
            elif cls == "near-":
                texts.append(repr(float(max(Fraction(0), Fraction(k) - Fraction(1, 10 ** 12)) / tps)))
            else:
                texts.append(repr(k / tps))
        yield {"kind": "snap", "tps": tps, "texts": texts}
    if tier == "thorough" or shard < 2:
        tps = rng.choice([10, 1000])
        yield {"kind": "snap", "tps": tps, "texts": [repr(k * 0.37 / tps + (k % 7) * 1e-4 / tps) for k in range(6000)], "_big": True}
        t_ = 0.0
        pipes = []
        for j in range(6000):
            t_ += rng.choice([0.0, 0.01, 0.3])
            pipes.append({"arrival": repr(round(t_, 4)), "rows": rng.choice([1, 2])})
        yield {"kind": "jitter", "pipes": pipes, "delta": rng.choice([0.0, 0.05, 2.0]), "seed": 7, "_big": True}
        # dense: thousands of pipelines within one delta of each other
        yield {"kind": "jitter", "pipes": [{"arrival": repr(round(j * 0.001, 3)), "rows": 1} for j in range(6000)],
               "delta": 5.0, "seed": rng.choice([1, 42]), "_big": True}
    for i in range(N_JIT[tier]):
        n = rng.randint(3, 60)
        t = 0.0
        pipes = []
        for j in range(n):
            t += rng.choice([0.0, 0.0, 0.001, 0.05, 0.5, 3.0])
            pipes.append({"arrival": repr(t) if rng.random() < 0.7 else repr(round(t, 3)), "rows": rng.choice([1, 1, 2, 4])})
        yield {"kind": "jitter", "pipes": pipes, "delta": rng.choice([0.0, 1e-9, 0.01, 0.1, 1.0, 10.0]),
               "seed": rng.choice([None, 0, 1, 42, 7, 123456])}
    for i in range(N_SENS[tier]):
        tps = rng.choice([10, 100])
        yield {"kind": "sens", "start_seed": rng.choice([0, 1, 42, 1000]), "n": 3,
               "params": {"duration": 30, "ticks_per_second": tps, "waiting_seconds_mean": 1.0, "num_pipelines": 2, "num_operators": 3,
                          "random_seed": rng.choice([5, 42, 77]), "scheduler_algo": "naive", "num_pools": 1}}


def write_trace(path, pipes):
    """pipes: list of (pid, arrival text, nrows)."""
    with open(path, "w", newline="") as f:
        f.write(HEADER)
        for pid, arr, nrows in pipes:
            for r in range(nrows):
                a = arr if r == 0 else ""
                pr = "BATCH_PIPELINE" if r == 0 else ""
                par = f"op{r}" if r else ""
                f.write(f"{pid},{a},{pr},op{r + 1},{par},{1 + r},const,,{0.5 * r}\n")


def read_rows(path):
    with open(path) as f:
        return list(csv.DictReader(f))


def run_tool(argv):
    import contextlib
    import eudoxia.__main__ as em
    out = io.StringIO()
    with contextlib.redirect_stdout(out), contextlib.redirect_stderr(out):
        em.main(argv)
    return out.getvalue()


def other_cells_equal(a, b, mon, what):
    if len(a) != len(b):
        mon.fail(what + "-row-count", f"{len(a)} rows in, {len(b)} rows out")
        return False
    for i, (x, y) in enumerate(zip(a, b)):
        if list(x.keys()) != list(y.keys()):
            mon.fail(what + "-columns", f"row {i}: columns changed {list(x.keys())} -> {list(y.keys())}")
            return False
        for c in x:
            if c != "arrival_seconds" and x[c] != y[c]:
                mon.fail(what + "-cell-changed", f"row {i} column {c}: '{x[c]}' -> '{y[c]}'")
                return False
        if bool(x["arrival_seconds"].strip()) != bool(y["arrival_seconds"].strip()):
            mon.fail(what + "-arrival-presence", f"row {i}: arrival cell presence changed")
            return False
    return True


def run_snap(case, mon):
    d = workdir()
    tps = case["tps"]
    fin, f1, f2 = (os.path.join(d, x) for x in ("in.csv", "s1.csv", "s2.csv"))
    try:
        write_trace(fin, [(f"p{i}", t, 1 + (i % 3 == 0)) for i, t in enumerate(case["texts"])])
        run_tool(["tools", "snap", fin, f1, str(tps), "-f"])
        run_tool(["tools", "snap", f1, f2, str(tps), "-f"])
        a, b, c = read_rows(fin), read_rows(f1), read_rows(f2)
        if not other_cells_equal(a, b, mon, "snap"):
            return
        other_cells_equal(b, c, mon, "snap2")
        for i, (x, y, z) in enumerate(zip(a, b, c)):
            tin = x["arrival_seconds"].strip()
            if not tin:
                continue
            tout = y["arrival_seconds"].strip()
            want, strict = snap_tick(tin, tps)
            xin = exact_ticks(tin, tps)
            xout = exact_ticks(tout, tps)
            detail = dict(text=tin, out=tout, tps=tps)
            mon.count("snap:on_grid_strict" if (strict and xin.denominator == 1) else ("snap:off_grid" if strict else "snap:near_grid"))
            if xin >= 2 ** 23:
                mon.count("snap:beyond_2^23_ticks")
            tol = grid_band(round(xin))
            # output must sit on a grid point (within float rounding of tick/tps)
            k = round(xout)
            if abs(xout - k) > tol:
                mon.fail("snap-off-grid", f"snap('{tin}' @ {tps}) = '{tout}' is not on a tick boundary ({float(xout)!r} ticks)", **detail)
                continue
            ok = (k == want) or (not strict and k in (want, round(xin)))
            if not ok:
                if k > want:
                    mon.fail("snap-moved-up", f"snap('{tin}' @ {tps}) = '{tout}' (tick {k}) lies above the arrival (grid point at or below is {want})", **detail)
                elif xin.denominator == 1:
                    mon.fail("snap-moved-on-grid-value", f"'{tin}' is exactly on tick {want} @ {tps} ticks/s but was moved to '{tout}' (tick {k})", **detail)
                else:
                    mon.fail("snap-too-far", f"snap('{tin}' @ {tps}) = '{tout}' (tick {k}); nearest boundary at or below is tick {want}", **detail)
            if xin.denominator == 1 and strict and float(tout) != float(tin):
                mon.fail("snap-changed-on-grid-value", f"'{tin}' is on the grid @ {tps} but its value changed to '{tout}'", **detail)
            t2 = z["arrival_seconds"].strip()
            mon.count("snap_double_checked")
            if float(t2) != float(tout):
                mon.fail("snap-not-idempotent", f"snap twice: '{tin}' -> '{tout}' -> '{t2}' @ {tps} ticks/s", **detail)
        mon.hit({"tps": tps, "n": len(case["texts"]), "head": [(x["arrival_seconds"], y["arrival_seconds"]) for x, y in list(zip(a, b))[:4]]})
    finally:
        for p in (fin, f1, f2):
            try:
                os.remove(p)
            except OSError:
                pass


def group(rows):
    out = []
    for r in rows:
        if out and out[-1][0] == r["pipeline_id"]:
            out[-1][1].append(r)
        else:
            out.append((r["pipeline_id"], [r]))
    return out


def run_jitter(case, mon):
    d = workdir()
    fin = os.path.join(d, "jin.csv")
    outs = [os.path.join(d, f"j{i}.csv") for i in range(3)]
    delta = case["delta"]
    try:
        write_trace(fin, [(f"p{i}", p["arrival"], p["rows"]) for i, p in enumerate(case["pipes"])])
        seed = case["seed"]
        sargs = ["-s", str(seed)] if seed is not None else []
        run_tool(["tools", "jitter", fin, outs[0], repr(delta), "-f"] + sargs)
        run_tool(["tools", "jitter", fin, outs[1], repr(delta), "-f"] + sargs)
        run_tool(["tools", "jitter", fin, outs[2], repr(delta), "-f", "-s", str((seed or 42) + 1)])
        a = read_rows(fin)
        b, b2, b3 = (read_rows(p) for p in outs)
        mon.count("jitter_pairs_same_seed")
        if [dict(r) for r in b] != [dict(r) for r in b2]:
            mon.fail("jitter-not-reproducible", f"two runs with seed {seed} and delta {delta} differ")
        ga, gb = group(a), group(b)
        if sorted(x[0] for x in ga) != sorted(x[0] for x in gb) or len(a) != len(b):
            mon.fail("jitter-lost-pipeline", f"{len(ga)} pipelines / {len(a)} rows in, {len(gb)} pipelines / {len(b)} rows out")
            return
        ina = {pid: rows for pid, rows in ga}
        prev = None
        reordered = [x[0] for x in ga] != [x[0] for x in gb]
        if reordered:
            mon.count("jitter_reordered_outputs")
        pos_in = {pid: i for i, (pid, _) in enumerate(ga)}
        for pid, rows in gb:
            mon.count("jitter_pipelines")
            rin = ina[pid]
            for x, y in zip(rin, rows):
                for c in x:
                    if c != "arrival_seconds" and x[c] != y[c]:
                        mon.fail("jitter-cell-changed", f"pipeline {pid} column {c}: '{x[c]}' -> '{y[c]}'")
                if bool(x["arrival_seconds"].strip()) != bool(y["arrival_seconds"].strip()):
                    mon.fail("jitter-arrival-presence", f"pipeline {pid}: arrival cell presence changed")
            if len(rin) != len(rows):
                mon.fail("jitter-rows", f"pipeline {pid}: {len(rin)} rows in, {len(rows)} out")
            tin, tout = float(rin[0]["arrival_seconds"]), float(rows[0]["arrival_seconds"])
            added = Fraction(rows[0]["arrival_seconds"]) - Fraction(rin[0]["arrival_seconds"])
            ulp = abs(tout) * 2.0 ** -52 + 1e-300
            if added < -ulp or added > Fraction(delta) + Fraction(ulp):
                mon.fail("jitter-out-of-bounds", f"pipeline {pid}: arrival {tin!r} -> {tout!r}, added {float(added)!r} not in [0, {delta}]")
            if prev is not None:
                if tout < prev[0]:
                    mon.fail("jitter-not-sorted", f"output not in ascending arrival order: {prev[0]!r} then {tout!r}")
                elif tout == prev[0] and pos_in[pid] < pos_in[prev[1]]:
                    mon.fail("jitter-equal-arrivals-reordered", f"pipelines {prev[1]} and {pid} have equal arrivals and swapped places")
            prev = (tout, pid)
        if delta > 1e-6 and len(ga) >= 3:
            mon.count("jitter_pairs_diff_seed")
            if [r["arrival_seconds"] for r in b] == [r["arrival_seconds"] for r in b3]:
                mon.fail("jitter-seed-ignored", f"seeds {seed} and {(seed or 42) + 1} give the identical output (delta {delta})")
        mon.hit({"delta": delta, "seed": seed, "pipelines": len(ga), "reordered": reordered})
    finally:
        for p in [fin] + outs:
            try:
                os.remove(p)
            except OSError:
                pass


def run_sens(case, mon):
    """sensitivity-sample: workload i must be the generator's workload for seed start_seed + i."""
    import sys
    import shutil
    import tomlkit
    import eudoxia.tools as tools
    from eudoxia.simulator import parse_args_with_defaults
    from eudoxia.workload import WorkloadGenerator
    from eudoxia.workload.csv_io import CSVWorkloadWriter, WorkloadTraceGenerator
    d = os.path.join(workdir(), "sens")
    os.makedirs(d, exist_ok=True)
    pf = os.path.join(d, "params.toml")
    t = tomlkit.table()
    t.update(case["params"])
    with open(pf, "w") as f:
        tomlkit.dump(t, f)
    real_cmd = tools.sensitivity_command
    so, se = sys.stdout, sys.stderr
    calls = []
    try:
        def _stub(params_file, workload, output_dir, *a, **k):
            # the simulations are not the subject here; like the real command the stub leaves a results file behind
            calls.append((params_file, workload, output_dir))
            os.makedirs(str(output_dir), exist_ok=True)
            with open(os.path.join(str(output_dir), "results.csv"), "w") as f_:
                f_.write("variant,mean\n")
        tools.sensitivity_command = _stub
        texts = []
        # the sampling is run twice into the SAME output directory, the second time from another start seed (a user
        # who repeats the command): sample i must be the workload of the *current* start seed + i
        passes = [case["start_seed"] + 11, case["start_seed"]]
        for pass_no, start in enumerate(passes):
          for i in range(case["n"]):
            if pass_no == 0:
                tools._sensitivity_task(tools.SensitivityTask(workload_index=i, params_file=pf, output_dir=d, seed=start + i, jitter_seed=None))
                sys.stdout, sys.stderr = so, se
                mon.count("sensitivity_samples_regenerated_in_a_used_directory")
                continue
            task = tools.SensitivityTask(workload_index=i, params_file=pf, output_dir=d, seed=case["start_seed"] + i, jitter_seed=None)
            idx, ok = tools._sensitivity_task(task)
            sys.stdout, sys.stderr = so, se
            if not ok:
                mon.fail("sensitivity-task-failed", f"sample {i} failed: {open(os.path.join(d, f'w{i}.log')).read()[-300:]}")
                return
            texts.append(open(os.path.join(d, f"w{i}.csv")).read())
            # expected: the generator with random_seed = start_seed + i
            params = parse_args_with_defaults(dict(case["params"]))
            params["random_seed"] = case["start_seed"] + i
            buf = io.StringIO()
            w = CSVWorkloadWriter(buf)
            for row in WorkloadTraceGenerator(WorkloadGenerator(**params), params["ticks_per_second"], params["duration"]).generate_rows():
                w.write_row(row)
            mon.count("sensitivity_samples_compared")
            if buf.getvalue().replace("\r\n", "\n") != texts[-1].replace("\r\n", "\n"):
                mon.fail("sample-seed", f"workload w{i}.csv is not the generator's workload for seed start_seed + {i} = {case['start_seed'] + i}",
                         start_seed=case["start_seed"], params_seed=case["params"].get("random_seed"))
        if len(set(texts)) != len(texts):
            mon.fail("samples-identical", f"{len(texts)} samples, only {len(set(texts))} distinct workloads")
        mon.hit({"start_seed": case["start_seed"], "samples": len(texts), "rows": [t_.count("\n") for t_ in texts]})
    finally:
        sys.stdout, sys.stderr = so, se
        tools.sensitivity_command = real_cmd
        shutil.rmtree(d, ignore_errors=True)


def run_case(case, mon):
    try:
        if case["kind"] == "snap":
            run_snap(case, mon)
        elif case["kind"] == "jitter":
            run_jitter(case, mon)
        else:
            run_sens(case, mon)
    finally:
        try:
            os.rmdir(workdir())
        except OSError:
            pass
