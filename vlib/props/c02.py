"""C02 - operator life cycle follows the documented state machine; completion is final.

UNIT: on every DAG of <= 3 operators an independent automaton (M1) runs in lock-step with
the real PipelineRuntimeStatus: (a) complete transition relation - BFS over all reachable
state vectors x all (operator, target) requests; (b) all request histories to a fixed depth
(history-dependent behaviour).  Every refusal must leave states and counts untouched, every
acceptance must change exactly one operator and keep counts == histogram.
SIM/EXEC: the same automaton on every transition of full simulations and executor scripts
(fail -> retry -> suspend -> resume histories), container membership polled every tick."""
import itertools

from ..core import rng_for
from .. import gen
from ..model import ALLOWED, STATES
from . import _exec, _sim

ID = "C02"
LEVEL = "exploration"
ANCHORS = ["eudoxia/workload/runtime_status.py", "eudoxia/workload/pipeline.py", "eudoxia/executor/assignment.py",
           "eudoxia/executor/container.py", "eudoxia/executor/resource_pool.py"]
RULE = ("UNIT: 11 DAGs on <= 3 operators; (a) every reachable state vector x every (operator,target) request; (b) every request "
        "history up to depth 4 (quick) / 5, and 6 for <= 2 operators (thorough); SIM/EXEC: every transition of generated runs; "
        "non-trivial = a history with >= 1 accepted and >= 1 refused request, or a run with failure/suspension/retry "
        "transitions; distinct = distinct (DAG, first requests) blocks / configurations / scripts")
ASSUMPTIONS = [
    "M1 as written in the property: P->A, A->R (parents completed), A->S, A->F, R->C, R->F, S->P, F->A",
    "a rejected multi-operator Assignment leaves its earlier operators ASSIGNED (batch non-atomicity): the statement speaks about the refused request only",
]
EXHAUSTIVE = {"quick": ["transition relation of all DAGs on <= 3 operators (all reachable states x 6n requests)",
                        "all request histories of depth <= 4 on all DAGs on <= 3 operators"],
              "thorough": ["transition relation of all DAGs on <= 4 operators (75 DAGs)", "all request histories of depth <= 5 (<= 3 operators) and 6 (<= 2 operators)"]}
NSHARDS = {"quick": 16, "thorough": 16}
DEPTH = {"quick": 4, "thorough": 5}
N_SIM = {"quick": 20, "thorough": 500}
N_MIX = {"quick": 120, "thorough": 4000}
REQUIRE = {"scale:run_with_more_than_8192_pipelines": 1, "requests_accepted": 10000, "requests_refused": 100000, "state_vectors_reached": 200,
           "transition:failed->assigned": 50, "transition:assigned->suspending": 20, "transition:suspending->pending": 20,
           "transition_refused": 20, "sim_runs": 80, "full_state_polls": 100}

DAGS = [(n, i) for n in (1, 2, 3) for i in range(gen.count_dags(n))]


def cases(tier, seed, shard, nshards):
    rng = rng_for(ID, seed, shard)
    idx = 0
    for n, di in DAGS:
        if idx % nshards == shard:
            yield {"kind": "relation", "n": n, "dag": di}
        idx += 1
    if tier == "thorough":
        # complete transition relation also for every DAG on 4 operators (64 DAGs, up to 1296 state vectors each)
        for di in range(gen.count_dags(4)):
            if idx % nshards == shard:
                yield {"kind": "relation", "n": 4, "dag": di}
            idx += 1
    d = DEPTH[tier]
    for n, di in DAGS:
        reqs = n * len(STATES)
        # block = fixed first request; histories = that request followed by all (d-1)-tuples
        for first in range(reqs):
            if idx % nshards == shard:
                yield {"kind": "histories", "n": n, "dag": di, "first": first, "depth": d}
            idx += 1
    if tier == "thorough":
        for n, di in DAGS:
            if n > 2:
                continue
            reqs = n * len(STATES)
            for first in range(reqs):
                for second in range(reqs):
                    if idx % nshards == shard:
                        yield {"kind": "histories", "n": n, "dag": di, "first": first, "second": second, "depth": 6}
                    idx += 1
    for i in range(N_SIM[tier]):
        yield _sim.random_sim_case(rng, small=True, mem_levels=[0.05, 0.15, 0.3, 0.6], algos=_sim.ALGOS_PLUS)
    for i in range(N_MIX[tier]):
        yield _exec.mix_case(rng, i, steps=rng.choice([40, 80]), p_bad=rng.choice([0.03, 0.06]),
                             bad_kinds=["reassign", "reassign", "suspend-mid"], p_suspend=rng.choice([0.3, 0.8]),
                             p_unready=0.05, mem_heavy=rng.random() < 0.6, maxn=4, npipes=rng.randint(2, 8))
    if tier == "thorough" and shard < 4:
        yield _sim.regression_case(shard)
    # scale cases: large in one dimension (one per shard for the first shards; all of them, twice, in the thorough tier)
    _kinds = ["crowd", "many-small", "storm", "crowd"]
    for _j, _kd in enumerate(_kinds * (1 if tier == "quick" else 2)):
        if tier == "thorough" or _j == shard:
            _k, _, _a = _kd.partition(":")
            yield _sim.scale_case(rng, _k, algo=_a or None)
    if tier == "thorough":
        for _k in range(2):
            yield _sim.long_sim_case(rng, algos=_sim.ALGOS_PLUS)


class Shadow:
    """M1 next to a freshly built real pipeline."""

    def __init__(self, n, dag):
        from .. import sut
        self.sut = sut
        self.parents = gen.dag_from_index(n, dag)
        self.p = sut.Pipeline("x", sut.Priority.BATCH_PIPELINE)
        self.ops = []
        for k in range(n):
            self.ops.append(self.p.new_operator([self.ops[i] for i in self.parents[k]] or None))
        self.rs = self.p.runtime_status()
        self.m = ["pending"] * n

    def allowed(self, k, to):
        if (self.m[k], to) not in ALLOWED:
            return False
        if to == "running" and any(self.m[i] != "completed" for i in self.parents[k]):
            return False
        return True

    def request(self, k, to, mon, ctx):
        """Issue the request on the real object, compare with M1.  Returns accepted?"""
        OS = self.sut.OperatorState
        target = OS(to)
        before_states = dict(self.rs.operator_states)
        before_counts = dict(self.rs.state_counts)
        want = self.allowed(k, to)
        try:
            self.ops[k].transition(target)
            got = True
        except AssertionError:
            got = False
        except Exception as e:
            got = False
            if want:
                mon.fail("refused-with-odd-error", f"{ctx}: request op{k}->{to} raised {type(e).__name__}: {e}")
        if got != want:
            mon.fail("accept-mismatch", f"{ctx}: request op{k} {self.m[k]}->{to} was {'accepted' if got else 'refused'}, "
                                        f"the documented machine says {'accept' if want else 'refuse'} (states {self.m})")
        if got:
            mon.count("requests_accepted")
            if self.m[k] == "completed":
                mon.fail("completed-changed", f"{ctx}: a completed operator moved to {to}")
            self.m[k] = to
        else:
            mon.count("requests_refused")
            if dict(self.rs.operator_states) != before_states or dict(self.rs.state_counts) != before_counts:
                mon.fail("refusal-changed-state", f"{ctx}: refused request op{k}->{to} changed states or counts")
        real = [self.rs.operator_states[o].value for o in self.ops]
        if real != self.m and got == want:
            mon.fail("state-mismatch", f"{ctx}: states {real}, model {self.m}")
        hist = {}
        for st in self.rs.operator_states.values():
            hist[st] = hist.get(st, 0) + 1
        if any(self.rs.state_counts[st] != hist.get(st, 0) for st in OS):
            mon.fail("counts-mismatch", f"{ctx}: counts {self.rs.state_counts} vs histogram {hist}")
        complete = all(x == "completed" for x in self.m)
        if bool(self.rs.is_pipeline_successful()) != complete and got == want:
            mon.fail("completion-test", f"{ctx}: is_pipeline_successful={self.rs.is_pipeline_successful()} with states {self.m}")
        return got


def run_relation(case, mon):
    n, dag = case["n"], case["dag"]
    # BFS over reachable state vectors; each vector is re-reached by replaying its path on a fresh pipeline
    start = tuple(["pending"] * n)
    paths = {start: []}
    frontier = [start]
    while frontier:
        nxt = []
        for vec in frontier:
            for k in range(n):
                for to in STATES:
                    sh = Shadow(n, dag)
                    for (kk, tt) in paths[vec]:
                        sh.request(kk, tt, mon, f"DAG {sh.parents} replay")
                    sh.request(k, to, mon, f"DAG {sh.parents} state {list(vec)}")
                    new = tuple(sh.m)
                    if new not in paths:
                        paths[new] = paths[vec] + [(k, to)]
                        nxt.append(new)
        frontier = nxt
    mon.count("state_vectors_reached", len(paths))
    mon.hit({"dag": gen.dag_from_index(n, dag), "reachable_state_vectors": len(paths)})


def run_histories(case, mon):
    n, dag, depth = case["n"], case["dag"], case["depth"]
    reqs = [(k, to) for k in range(n) for to in STATES]
    prefix = [reqs[case["first"]]]
    if "second" in case:
        prefix.append(reqs[case["second"]])
    rest = depth - len(prefix)
    acc = ref = 0
    for tail in itertools.product(reqs, repeat=rest):
        sh = Shadow(n, dag)
        ctx = f"DAG {sh.parents} history {prefix + list(tail)}"
        for (k, to) in prefix:
            sh.request(k, to, mon, ctx)
        for (k, to) in tail:
            sh.request(k, to, mon, ctx)
        mon.count("histories")
    mon.hit({"dag": gen.dag_from_index(n, dag), "prefix": prefix, "depth": depth, "histories": len(reqs) ** rest})


def run_case(case, mon):
    if case["kind"] == "relation":
        return run_relation(case, mon)
    if case["kind"] == "histories":
        return run_histories(case, mon)
    if case["kind"] == "sim":
        _sim.run_sim_case(case, mon, ID, nontrivial=lambda h: h.n_failed + h.n_suspended > 0)
        return
    w, mine = _exec.run_exec_case(case, mon, ID, driver=_exec.mix_driver(case), max_steps=case.get("driver", {}).get("steps", 60))
    for ev in w.log.events:
        seq, op, frm, to, ok, msg = ev
        if ok:
            mon.count(f"transition:{frm}->{to}")
        else:
            mon.count("transition_refused")
    if w.events.get("container_failed", 0) + w.events.get("suspend_accepted", 0):
        mon.hit({"failed": w.events.get("container_failed", 0), "suspended": w.events.get("suspend_accepted", 0), "ended": w.ended})
