"""C05 - container execution follows the documented time and memory model.

Driver: EXEC with exactly one container in a one-pool executor (no interference).
Oracle: M3 (model.container_ticks) advanced in lock-step by execworld.World; per tick the
container's memory use, the state of every operator, the result (tick and kind) and the
completed-prefix/failed-suffix pattern are compared.  Tick counts or limits within float
rounding of a boundary are ambiguous by the statement itself; the model then enumerates
the admissible resolutions and a trace is accepted if one of them reproduces it."""
from .. import gen
from ..core import rng_for
from ..model import LAWS

ID = "C05"
LEVEL = "exploration"
ANCHORS = ["eudoxia/executor/container.py", "eudoxia/workload/pipeline.py", "eudoxia/utils/consts.py"]
RULE = ("cases = single containers generated from boundary-seeking classes (1..6 operators x 1..3 segments, 7 scaling laws, "
        "cpus in {1,1.5,2,3,4,6,7,8,16,64}, fixed/growing/zero memory, allocation <<,just below,equal,just above,>> peak, "
        "tick rates 1..100000, durations exact/just-below/just-above/zero/sub-tick); a case is non-trivial when the container "
        "was accepted and ran to an outcome that the model compared tick by tick; distinct = distinct case descriptions")
ASSUMPTIONS = [
    "oracle M3 written from the property statement and README, shares no code with the repository",
    "tick counts / limits within 1e-9 relative of a boundary may fall on either side (stated by C05); strict when the tick rate is a power of two and the duration is an exact integer number of ticks",
    "the memory figure of the single forced tick of a zero-duration operator is not specified; any of the operator's own figures is accepted",
    "CPU allocations >= 1 (below 1/e the log law is meaningless)",
    "python -O (assertions stripped) is out of scope",
]
NSHARDS = {"quick": 16, "thorough": 16}
N_CASES = {"quick": 1200, "thorough": 90000}   # per shard
REQUIRE = {"whatif_reruns_of_an_edited_segment": 100, "resize:remaining_operators_resumed_with_another_cpu_count": 300, "resize:resumed_container_completed": 150, "outcome:oom": 200, "outcome:ok": 200, "zero_tick_operators": 50, "multi_segment_operators": 100,
           "compared_ticks": 20000, "ambiguous_cases_resolved": 5, "retried_containers": 300, "retries_succeeded": 100, "neighbour_cases:cancel": 300, "neighbour_cases:random": 100, "alloc_class:long-lived": 8, "alloc_class:churn": 3}
for _l in LAWS:
    REQUIRE["law:" + _l] = 50

CPUS = [1, 1, 2, 3, 4, 6, 7, 8, 16, 64, 1.5]


def make_case(rng, idx):
    tps = gen.pick_tps(rng)
    cpus = rng.choice(CPUS)
    nops = rng.choice([1, 1, 2, 3, 4, 6])
    mode = "edgy" if rng.random() < 0.8 else "safe"
    chain = rng.random() < 0.6
    ops = []
    for k in range(nops):
        nseg = rng.choice([1, 1, 1, 2, 3])
        segs = [gen.make_seg(rng, tps, cpus, mode, mem_ref=rng.choice([0.5, 4.0, 40.0]), maxn=12) for _ in range(nseg)]
        ops.append({"parents": [k - 1] if (chain and k > 0) else [], "segs": segs})
    peak = gen.ops_peak(ops)
    cls = rng.choice(["far_below", "just_below", "equal", "just_above", "far_above", "far_above", "mid"])
    if peak <= 0:
        ram = rng.choice([0.001, 1.0, 8.0])
    elif cls == "far_below":
        ram = peak * rng.choice([0.05, 0.3])
    elif cls == "just_below":
        ram = peak * (1 - rng.choice([1e-12, 1e-9, 1e-6, 1e-3]))
    elif cls == "equal":
        ram = peak
    elif cls == "just_above":
        ram = peak * (1 + rng.choice([1e-12, 1e-9, 1e-6, 1e-3]))
    elif cls == "mid":
        ram = peak * rng.uniform(0.3, 1.0)
    else:
        ram = peak * rng.choice([1.5, 4.0])
    ram = max(ram, 1e-9)
    order = list(range(nops))
    if not chain:
        rng.shuffle(order)
    return {
        "kind": "single",
        "world": {"pools": 1, "cpus": max(64, cpus), "ram": max(ram * 2, 1.0), "tps": tps, "multi": True, "overcommit": False},
        "pipelines": [{"pid": "p0", "prio": rng.choice(gen.PRIOS), "ops": ops}],
        "steps": [{"sus": [], "asg": [{"pool": 0, "cpu": cpus, "ram": ram, "ops": [[0, i] for i in order]}]}],
        "drain": 6 * 3 * 2 * 14 + 50,
        "_alloc_class": cls,
    }


DIRECTED = [
    # zero-duration operators in first / middle / last position, zero last segment
    {"tps": 10, "cpus": 2, "ram": 8, "ops": [[(0.0, "const", None, 0.0)], [(1.0, "const", None, 2.0)]]},
    {"tps": 10, "cpus": 2, "ram": 8, "ops": [[(1.0, "const", None, 2.0)], [(0.0, "const", None, 0.0)], [(0.5, "const", 1.0, 0.0)]]},
    {"tps": 10, "cpus": 2, "ram": 8, "ops": [[(1.0, "const", None, 2.0)], [(0.01, "linear3", 3.0, 0.0)]]},
    {"tps": 10, "cpus": 2, "ram": 8, "ops": [[(1.0, "const", None, 2.0), (0.0, "const", None, 0.0)]]},
    {"tps": 1, "cpus": 1, "ram": 8, "ops": [[(0.3, "const", None, 1.0)], [(0.2, "sqrt", None, 0.0)], [(0.9, "log", 1.0, 0.0)]]},
    # the unit tests' profile, other laws
    {"tps": 10, "cpus": 4, "ram": 35, "ops": [[(10, l, None, 30.0)] for l in LAWS]},
    {"tps": 1000, "cpus": 16, "ram": 60, "ops": [[(15, "linear3", None, 35)], [(80, "squared", None, 10)]]},
    # OOM in the first tick, in the middle of I/O, at the last I/O tick, fixed memory above the limit
    {"tps": 10, "cpus": 1, "ram": 1.0, "ops": [[(1.0, "const", None, 40.0)]]},
    {"tps": 10, "cpus": 1, "ram": 9.0, "ops": [[(1.0, "const", 1.0, 0.0)], [(1.0, "const", None, 10.0)], [(1.0, "const", 1.0, 0.0)]]},
    {"tps": 10, "cpus": 1, "ram": 9.99, "ops": [[(1.0, "const", None, 10.0)]]},
    {"tps": 10, "cpus": 1, "ram": 5.0, "ops": [[(1.0, "const", 2.0, 0.0)], [(1.0, "const", 6.0, 0.0)], [(1.0, "const", 2.0, 0.0)]]},
    {"tps": 100000, "cpus": 64, "ram": 0.5, "ops": [[(0.001, "exp", None, 0.004)]]},
]


def directed_case(d):
    ops = []
    for k, segs in enumerate(d["ops"]):
        ops.append({"parents": [k - 1] if k else [],
                    "segs": [{"cpu": c, "law": l, "mem": m, "read": r} for (c, l, m, r) in segs]})
    return {"kind": "single",
            "world": {"pools": 1, "cpus": 64, "ram": max(64, d["ram"] * 2), "tps": d["tps"], "multi": True, "overcommit": False},
            "pipelines": [{"pid": "p0", "prio": "BATCH_PIPELINE", "ops": ops}],
            "steps": [{"sus": [], "asg": [{"pool": 0, "cpu": d["cpus"], "ram": d["ram"], "ops": [[0, i] for i in range(len(ops))]}]}],
            "drain": 200000 if d["tps"] >= 1000 else 5000, "_directed": True}


def retry_case(rng):
    """First attempt with too little memory (fails part-way), then the unfinished operators are
    assigned again - same operator objects - with another CPU count and enough memory."""
    c = make_case(rng, 0)
    ops = c["pipelines"][0]["ops"]
    peak = max(gen.ops_peak(ops), 0.001)
    a = c["steps"][0]["asg"][0]
    a["ram"] = peak * rng.choice([0.2, 0.5, 0.8, 0.95])
    cpu2 = rng.choice([x for x in CPUS if x != a["cpu"]])
    c["world"]["ram"] = max(c["world"]["ram"], peak * 4, 1.0)
    c["world"]["cpus"] = 128
    c["kind"] = "retry"
    c["retry"] = {"cpu": cpu2, "ram": peak * rng.choice([1.0, 1.5, 3.0])}
    c["_adaptive_pending"] = True
    return c


def neighbour_case(rng):
    """Two or three containers in one pool: the behaviour of a container must not depend on its
    neighbours.  Directed sub-class 'cancel': in the tick in which the victim's growing memory
    first exceeds its allocation, a neighbour drops by exactly the same amount (a fixed-memory
    segment followed by a smaller one), so the pool's total does not move in that tick."""
    tps = rng.choice([1, 2, 4, 5, 10, 20])
    g = 20.0 / tps                       # growth per tick during I/O (an integer for these rates)
    n = rng.randint(1, 6)                # the victim exceeds its allocation in tick n+1
    kind = rng.choice(["cancel", "cancel", "near-cancel", "random"])
    pipes, asg = [], []
    # victim: one growing operator, allocation strictly between n*g and (n+1)*g
    vread = g * (n + rng.randint(2, 5))
    vram = g * (n + rng.choice([0.25, 0.5, 0.75]))
    pipes.append({"pid": "victim", "prio": "BATCH_PIPELINE", "ops": [
        {"parents": [], "segs": [{"cpu": rng.randint(0, 3) / tps, "law": "const", "mem": None, "read": vread}]}]})
    asg.append({"pool": 0, "cpu": 1, "ram": vram, "ops": [[0, 0]]})
    if kind in ("cancel", "near-cancel"):
        m = g * rng.randint(2, 6)
        drop = g if kind == "cancel" else g * rng.choice([0.5, 2.0])
        two_ops = rng.random() < 0.5
        seg1 = {"cpu": n / tps, "law": "const", "mem": m, "read": 0.0}
        seg2 = {"cpu": rng.randint(1, 4) / tps, "law": "const", "mem": max(0.0, m - drop), "read": 0.0}
        ops = ([{"parents": [], "segs": [seg1]}, {"parents": [0], "segs": [seg2]}] if two_ops
               else [{"parents": [], "segs": [seg1, seg2]}])
        pipes.append({"pid": "neighbour", "prio": "BATCH_PIPELINE", "ops": ops})
        asg.append({"pool": 0, "cpu": 1, "ram": m * 2, "ops": [[1, i] for i in range(len(ops))]})
    else:
        for j in range(rng.randint(1, 2)):
            sp = gen.simple_pipeline(rng, f"n{j}", tps, nops=rng.choice([1, 2, 3]), shape="chain", mode="safe", cpus_hint=1,
                                     mem_ref=g * rng.choice([1, 3]), maxn=5)
            pipes.append(sp)
            asg.append({"pool": 0, "cpu": 1, "ram": max(gen.ops_peak(sp["ops"]) * rng.choice([0.6, 1.0, 1.5]), 0.01),
                        "ops": [[len(pipes) - 1, i] for i in range(len(sp["ops"]))]})
    if rng.random() < 0.5:
        pipes.reverse()
        for a in asg:
            a["ops"] = [[len(pipes) - 1 - pi, oi] for pi, oi in a["ops"]]
        asg.reverse()
    total = sum(a["ram"] for a in asg)
    return {"kind": "neighbours", "world": {"pools": 1, "cpus": 8, "ram": total * rng.choice([1.0, 2.0]), "tps": tps, "multi": True,
                                            "overcommit": False},
            "pipelines": pipes, "steps": [{"sus": [], "asg": asg}], "drain": 400, "_neighbour_class": kind}


class RetryDriver:
    def __init__(self, case):
        self.first = case["steps"][0]
        self.retry = case["retry"]
        self.done = False

    def __call__(self, w, i):
        if i == 0:
            return self.first
        if i > 3000:
            return None
        if not w.containers:
            return None
        mc = w.containers[0]
        if mc.status == "failed" and not self.done:
            self.done = True
            keys = [k for k in mc.keys if w.mstate[k] == "failed"]
            return {"sus": [], "asg": [{"pool": 0, "cpu": self.retry["cpu"], "ram": self.retry["ram"], "ops": [list(k) for k in keys]}]}
        if not any(w.active[k] for k in range(w.npools)):
            return None
        return {"sus": [], "asg": []}


def resize_case(rng):
    """A container of several operators is suspended at an operator boundary; once written out, the
    remaining operators - same objects - are assigned again with ANOTHER CPU count (a scheduler that
    resizes on resume).  Their tick counts have to follow the new CPU count."""
    for _ in range(20):
        c = make_case(rng, 0)
        if len(c["pipelines"][0]["ops"]) >= 2:
            break
    else:
        return c
    ops = c["pipelines"][0]["ops"]
    for o in ops:                       # make sure the CPU count matters somewhere after the boundary
        for sg in o["segs"]:
            if sg["law"] == "const" and rng.random() < 0.7:
                sg["law"] = rng.choice(["linear3", "sqrt", "squared", "linear7"]) if "linear3" in LAWS else rng.choice([l for l in LAWS if l != "const"])
    peak = max(gen.ops_peak(ops), 0.001)
    a = c["steps"][0]["asg"][0]
    a["ram"] = peak * rng.choice([1.0, 1.5, 4.0])
    a["ops"] = [[0, i] for i in range(len(ops))]
    cpu2 = rng.choice([x for x in CPUS if x != a["cpu"]])
    c["world"]["ram"] = max(c["world"]["ram"], a["ram"] * 4, 1.0)
    c["world"]["cpus"] = 192
    c["kind"] = "resize"
    c["resize"] = {"cpu": cpu2, "after": rng.randrange(1, len(ops))}
    c["_adaptive_pending"] = True
    return c


class ResizeDriver:
    def __init__(self, case):
        self.first = case["steps"][0]
        self.rz = case["resize"]
        self.asked = False
        self.resumed = False

    def __call__(self, w, i):
        if i == 0:
            return self.first
        if i > 6000 or not w.containers:
            return None
        mc = w.containers[0]
        if not self.asked and mc.status == "active" and mc.boundary and mc.ncomp >= self.rz["after"]:
            self.asked = True
            return {"sus": [{"pool": 0, "c": 0}], "asg": []}
        if mc.status == "suspended" and not self.resumed:
            keys = [k for k in mc.keys if w.mstate[k] == "pending"]
            if keys:
                self.resumed = True
                return {"sus": [], "asg": [{"pool": 0, "cpu": self.rz["cpu"], "ram": mc.ram, "ops": [list(k) for k in keys]}]}
        if not any(w.active[k] or w.suspending[k] for k in range(w.npools)):
            return None
        return {"sus": [], "asg": []}


def long_container_case(rng):
    """One container that lives for thousands of ticks (many operators and segments, long phases)."""
    tps = rng.choice([10, 100, 1000])
    cpus = rng.choice([1, 2, 4])
    nops = rng.choice([4, 6])
    ops = []
    for k in range(nops):
        segs = [gen.make_seg(rng, tps, cpus, "safe", mem_ref=2.0, maxn=rng.choice([300, 900])) for _ in range(rng.choice([1, 2, 3]))]
        ops.append({"parents": [k - 1] if k else [], "segs": segs})
    peak = max(gen.ops_peak(ops), 0.01)
    ram = peak * rng.choice([0.98, 1.0, 1.5])
    return {"kind": "single", "world": {"pools": 1, "cpus": 64, "ram": max(ram * 2, 1.0), "tps": tps, "multi": True, "overcommit": False},
            "pipelines": [{"pid": "p0", "prio": "BATCH_PIPELINE", "ops": ops}],
            "steps": [{"sus": [], "asg": [{"pool": 0, "cpu": cpus, "ram": ram, "ops": [[0, i] for i in range(nops)]}]}],
            "drain": 40000, "_alloc_class": "long-lived"}


def churn_case(rng, steps):
    """Long-lived multi-operator containers (one that fits, one that must OOM late) next to heavy churn:
    three short two-operator containers are started in every tick, > 500 containers come and go during
    the long ones' lives.  Their behaviour must not depend on that history."""
    tps = 10
    g = 20.0 / tps
    pipes, steps_l = [], []
    long_ops = lambda last_read: [
        {"parents": [], "segs": [{"cpu": (rng.randint(100, 130) + 0.5) / tps, "law": "const", "mem": 1.0, "read": 0.0}]},
        {"parents": [0], "segs": [{"cpu": (rng.randint(60, 90) + 0.5) / tps, "law": "const", "mem": None, "read": g * (rng.randint(10, 20) + 0.5)}]},
        {"parents": [1], "segs": [{"cpu": (rng.randint(20, 60) + 0.5) / tps, "law": "const", "mem": None, "read": last_read}]}]
    pipes.append({"pid": "L-ok", "prio": "BATCH_PIPELINE", "ops": long_ops(g * 6.5)})
    pipes.append({"pid": "L-oom", "prio": "BATCH_PIPELINE", "ops": long_ops(g * 80.5)})
    first = {"sus": [], "asg": [{"pool": 0, "cpu": 1, "ram": 60.0, "ops": [[0, 0], [0, 1], [0, 2]]},
                                 {"pool": 0, "cpu": 1, "ram": 60.0, "ops": [[1, 0], [1, 1], [1, 2]]}]}
    steps_l.append(first)
    for t in range(steps):
        asg = []
        for j in range(3):
            i = len(pipes)
            pipes.append({"pid": f"s{i}", "prio": "BATCH_PIPELINE", "ops": [
                {"parents": [], "segs": [{"cpu": (rng.randint(0, 1) + 0.5) / tps, "law": "const", "mem": None, "read": g * (rng.randint(1, 3) + 0.5)}]},
                {"parents": [0], "segs": [{"cpu": (rng.randint(0, 2) + 0.5) / tps, "law": "const", "mem": 0.5, "read": 0.0}]}]})
            asg.append({"pool": 0, "cpu": 1, "ram": 8.0, "ops": [[i, 0], [i, 1]]})
        steps_l.append({"sus": [], "asg": asg})
    return {"kind": "churn", "world": {"pools": 1, "cpus": 64, "ram": 1024, "tps": tps, "multi": True, "overcommit": False},
            "pipelines": pipes, "steps": steps_l, "drain": 400, "_alloc_class": "churn"}


def cases(tier, seed, shard, nshards):
    if shard == 0:
        for d in DIRECTED:
            yield directed_case(d)
    rng = rng_for(ID, seed, shard)
    if tier == "thorough" or shard < 3:
        yield churn_case(rng, 320 if tier == "quick" else 700)
    for _l in range(1 if tier == "quick" else 6):
        yield long_container_case(rng)
    for i in range(N_CASES[tier]):
        yield make_case(rng, i)
        if i % 6 == 0:
            yield retry_case(rng)
        if i % 8 == 3:
            yield resize_case(rng)
        if i % 5 == 0:
            yield neighbour_case(rng)
        if i % 10 == 0:
            yield whatif_case(rng)


def whatif_case(rng):
    """A what-if sweep: the *same* Segment object is run, its CPU seconds (or scaling law) are changed, and it is run
    again with the same CPU count.  The second run has to follow the new values."""
    tps = rng.choice([1, 10, 100])
    cpus = rng.choice([1, 2, 4, 8])
    t1, t2 = rng.sample([2, 3, 5, 8, 13, 21], 2)
    law1, law2 = rng.choice(["const", "sqrt", "squared"]), rng.choice(["const", "const", "linear7"])
    return {"kind": "whatif", "tps": tps, "cpus": cpus, "t1": t1, "t2": t2, "law1": law1, "law2": law2,
            "change_law": rng.random() < 0.3}


def run_whatif(case, mon):
    from .. import sut
    from ..model import Seg, container_ticks
    from eudoxia.workload.pipeline import Segment
    tps, cpus = case["tps"], case["cpus"]
    seg = Segment(baseline_cpu_seconds=1.0, cpu_scaling=case["law1"], memory_gb=0.01, storage_read_gb=0.0)
    observed, expected = [], []
    for rnd, (ticks_wanted, law) in enumerate(((case["t1"], case["law1"]), (case["t2"], case["law2"] if case["change_law"] else case["law1"]))):
        base = gen.inv_law(law, cpus, (ticks_wanted + 0.5) / tps)
        seg.baseline_cpu_seconds = base                                  # edited in place between the runs
        if rnd == 1 and case["change_law"]:
            seg.scaling_func = Segment.SCALING_FUNCS[law]
        ticks, n_amb = container_ticks([[Seg(base, law, 0.01, 0.0)]], cpus, tps)
        if n_amb:
            return
        expected.append(len(ticks))
        ex = sut.Executor(num_pools=1, cpus_per_pool=16, ram_gb_per_pool=4, ticks_per_second=tps, multi_operator_containers=True,
                          allow_memory_overcommit=False)
        p = sut.Pipeline(f"whatif{rnd}", sut.Priority.BATCH_PIPELINE)
        op = p.new_operator(None)
        op.add_segment(seg)
        a = sut.Assignment(ops=[op], cpu=cpus, ram=1.0, priority=p.priority, pool_id=0, pipeline_id=p.pipeline_id)
        n, res = 0, ex.run_one_tick([], [a])
        while not res and n < 5000:
            n += 1
            res = ex.run_one_tick([], [])
        observed.append(n + 1 if res and res[0].error is None else None)
    mon.count("whatif_reruns_of_an_edited_segment")
    if observed != expected:
        mon.fail("edited-segment-ignored", f"a Segment run for {expected[0]} ticks, edited in place and run again with the same {cpus} CPUs "
                                           f"must take {expected[1]} ticks; observed {observed}", tps=tps, cpus=cpus)
    mon.hit({"kind": "whatif", "expected": expected})


def run_case(case, mon):
    from ..execworld import run_with_choices, ANY, World
    if case.get("kind") == "whatif":
        return run_whatif(case, mon)
    if case.get("kind") == "retry" and case.get("_adaptive_pending"):
        case.pop("_adaptive_pending")
        w = World(case)
        probs = w.run(driver=RetryDriver(case), max_steps=3100)
        status = "ok" if not probs else "problems"
        if probs and w.n_amb:
            w2, probs2, status = run_with_choices(case)
            if status != "problems":
                w, probs = w2, probs2
        if len(w.containers) > 1:
            mon.count("retried_containers")
            if w.containers[1].status == "ok":
                mon.count("retries_succeeded")
    elif case.get("kind") == "resize" and case.get("_adaptive_pending"):
        case.pop("_adaptive_pending")
        first_step = case["steps"][0]

        def _drv():
            case["steps"] = [first_step]
            return ResizeDriver(case)
        # float-boundary tick counts are explored like in scripted cases, each resolution with a fresh driver
        w, probs, status = run_with_choices(case, driver_factory=_drv, max_steps=6100)
        if w.events.get("suspend_accepted"):
            mon.count("resize:suspended_at_an_operator_boundary")
        if len(w.containers) > 1:
            mon.count("resize:remaining_operators_resumed_with_another_cpu_count")
            if w.containers[1].status == "ok":
                mon.count("resize:resumed_container_completed")
    else:
        w, probs, status = run_with_choices(case)
    if status == "skipped-ambiguous":
        mon.count("skipped_too_ambiguous")
        return
    spec = case["pipelines"][0]
    mine = [p for p in probs if "C05" in p.tags or ANY in p.tags]
    if not w.containers:
        mon.count("container_not_created")
    else:
        mc = w.containers[-1]
        mon.count("compared_ticks", sum(m.j for m in w.containers))
        mon.count("outcome:" + {"ok": "ok", "failed": "oom"}.get(mc.status, mc.status))
        if mc.status in ("ok", "failed"):
            mon.hit({"ticks": mc.j, "outcome": mc.status, "completed_ops": mc.ncomp, "trace_head": w.trace[:6]})
        if w.n_amb:
            mon.count("ambiguous_cases_resolved" if not mine else "ambiguous_cases_failed")
        else:
            mon.count("unambiguous_cases")
        for t in mc.ticks:
            if t.alts is not None:
                mon.count("zero_tick_operators")
    for o in spec["ops"]:
        if len(o["segs"]) > 1:
            mon.count("multi_segment_operators")
        for s in o["segs"]:
            mon.count("law:" + s["law"])
    mon.count("alloc_class:" + case.get("_alloc_class", "directed"))
    if case.get("kind") == "neighbours":
        mon.count("neighbour_cases:" + case["_neighbour_class"])
    for p in mine[:3]:
        mon.fail(p.kind, p.msg, step=p.step, tags=list(p.tags))
