"""C18 - overbook: one operator and one CPU per container, full-pool RAM, CPU-bound.

SIM with overcommit on: every assignment holds exactly one ready operator, one CPU and a
memory limit equal to the pool's capacity; live containers per pool never exceed its CPUs;
after every round triggered by an arrival or a result no ready operator of a live pipeline
waits while some pool still has a free CPU; nothing is assigned for a pipeline after its
third failed container."""
from ..core import rng_for
from . import _sim

ID = "C18"
LEVEL = "exploration"
ANCHORS = ["eudoxia/scheduler/overbook.py", "eudoxia/executor/resource_pool.py"]
RULE = ("cases = overbook simulations with overcommit: 1..3 pools of 1..10 CPUs, small RAM (pool-level killer fires), DAG workloads, "
        "fixed memories above pool capacity (three strikes); non-trivial = a run with at least one triggered round that had ready "
        "work; distinct = distinct configurations")
ASSUMPTIONS = ["'ready' = assignable (pending or failed) with all parents completed", "failures are counted per pipeline from the reported failure results"]
NSHARDS = {"quick": 16, "thorough": 16}
N = {"quick": 60, "thorough": 4000}
REQUIRE = {"scale:run_with_more_than_100000_pipelines": 1, "scale:run_with_more_than_512_pipelines": 1, "overbook_assignments": 5000, "triggered_rounds": 3000, "rounds_with_full_cpus": 500, "pipelines_abandoned": 100,
           "ticks_with_ram_overbooked": 1000, "sim_runs": 500}


def cases(tier, seed, shard, nshards):
    rng = rng_for(ID, seed, shard)
    if shard == 6:
        # one run far beyond every bounded structure one would think of: > 100,000 pipelines known to one scheduler
        yield _sim.scale_case(rng, "huge-ids")
    for i in range(N[tier]):
        c = _sim.random_sim_case(rng, small=True, algos=("overbook",), pools=rng.choice([1, 2, 3]),
                                 mem_levels=[0.1, 0.3, 0.45, 0.6, 0.9, 1.5, 3.0], npipes=rng.choice([3, 8, 20, 40]),
                                 workload=rng.choice(["script", "script", "script", "generator"]))
        c["params"]["cpus_per_pool"] = rng.choice([1, 2, 3, 4, 10])
        yield c
    # scale cases: large in one dimension (one per shard for the first shards; all of them, twice, in the thorough tier)
    _kinds = ["fail-sibs", "many-small:overbook", "fail-sibs", "crowd:overbook"]
    for _j, _kd in enumerate(_kinds * (1 if tier == "quick" else 2)):
        if tier == "thorough" or _j == shard:
            _k, _, _a = _kd.partition(":")
            yield _sim.scale_case(rng, _k, algo=_a or None)
    if tier == "thorough":
        for _k in range(2):
            yield _sim.long_sim_case(rng, algos=("overbook",))


def run_case(case, mon):
    _sim.run_sim_case(case, mon, ID, nontrivial=lambda h: h.events.get("triggered_rounds", 0) > 0 and len(h.conts) > 0)
