"""C06 - completion, latency and returned statistics match an independent recount.

SIM: run_simulator itself with recording workload / scheduler / executor wrap.  Monitor
StatsMon (M7) recounts every field the statement names from the recorded boundary events:
arrivals and completions per class, completion tick = the tick in which the last operator
completed (from the totally ordered transition log), latency, mean / p99 (own percentile),
throughput, assignment / suspension / failure / per-error counters; per pipeline the
recorded arrival and finish ticks are read back.  Directed classes: nothing arrives,
nothing finishes, empty class, run shorter than one tick, single uncontended pipeline
(latency must be exactly the model's tick count - 1), heavy failure, recurring pipeline ids
(a job name that comes back after its earlier instance finished)."""
from ..core import rng_for
from .. import gen
from . import _sim

ID = "C06"
LEVEL = "exploration"
ANCHORS = ["eudoxia/simulator.py", "eudoxia/workload/runtime_status.py", "eudoxia/executor/executor.py",
           "eudoxia/executor/resource_pool.py"]
RULE = ("cases = simulations: generated and scripted DAG workloads x {naive, priority, priority-pool, overbook, template} x "
        "pool/tick configurations, plus directed classes (no arrivals, no completions, empty class, sub-tick run, uncontended "
        "pipeline, heavy failure) and, thorough, the four stored regression traces; non-trivial = the run returned statistics "
        "and every field was compared with the recount; distinct = distinct configurations")
ASSUMPTIONS = [
    "recorders sit at the workload -> scheduler -> executor boundaries; completion tick taken from the transition log",
    "statistics compared at 1e-9 relative, NaN == NaN; own linear-interpolation percentile",
    "container-level p99_latency is not defined by the statement: accepted if it equals the recount over all ended containers or over successful ones",
    "uncontended latency uses model M3 with the CPU count of the actual assignment",
]
NSHARDS = {"quick": 16, "thorough": 16}
N_SIM = {"quick": 40, "thorough": 7000}
REQUIRE = {"scale:run_with_more_than_1024_completions_of_one_class": 1, "stat_fields_compared": 5000, "pipelines_completed_checked": 1000, "empty_class_compared": 100,
           "runs_without_arrivals": 5, "runs_without_completions": 10, "runs_without_container_endings": 5,
           "uncontended_latency_checked": 30, "runs_with_recurring_pipeline_ids": 8, "sim_release_checked": 0}
REQUIRE.pop("sim_release_checked")


def uncontended_case(rng):
    algo = rng.choice(_sim.ALGOS)
    # tick rates of every kind: reciprocals that are / are not finite decimals, audio-style rates, the extremes
    tps = rng.choice([1, 2, 5, 10, 20, 100]) if rng.random() < 0.5 else rng.choice([3, 6, 7, 15, 60, 128, 3000, 30000, 44100, 64000, 99999, 100000])
    multi = rng.random() < 0.5 or algo == "priority-pool"
    nops = rng.choice([1, 2, 3, 4])
    shape = "chain" if not multi else rng.choice(["chain", "diamond", "random"])
    # phases of a few ticks, or of hundreds / thousands (a relative error in the tick length needs length to show)
    maxn = 5 if rng.random() < 0.6 else rng.choice([300, 1000])
    spec = gen.simple_pipeline(rng, "solo", tps, nops=nops, prio=rng.choice(gen.PRIOS), shape=shape, mode="safe",
                               cpus_hint=rng.choice([1, 4]), mem_ref=0.2, maxn=maxn)
    for o in spec["ops"]:
        for s in o["segs"]:
            s["mem"] = 0.01 if s["mem"] is None else min(s["mem"], 0.2)
    a = rng.choice([0, 1, 7])
    params = {"duration": (2000 if maxn == 5 else 16 * maxn + 1000) / tps, "ticks_per_second": tps,
              "num_pools": 2 if algo == "priority-pool" else rng.choice([1, 2]),
              "cpus_per_pool": rng.choice([4, 10, 64]), "ram_gb_per_pool": rng.choice([16, 64, 256]),
              "multi_operator_containers": multi, "allow_memory_overcommit": algo == "overbook"}
    return {"kind": "sim", "algo": algo, "params": params, "workload": {"type": "script", "arrivals": {str(a): [spec]}},
            "_uncontended": True}


def directed(rng, which):
    c = _sim.random_sim_case(rng, small=True, workload="script")
    if which == "no-arrivals":
        c["workload"]["arrivals"] = {}
    elif which == "no-completions":
        c["params"]["duration"] = 2 / c["params"]["ticks_per_second"]
        for specs in c["workload"]["arrivals"].values():
            for sp in specs:
                for o in sp["ops"]:
                    for s in o["segs"]:
                        s["cpu"] = 50.0
                        s["law"] = "const"
        if not c["workload"]["arrivals"]:
            c["workload"]["arrivals"] = {"0": [gen.simple_pipeline(rng, "x", c["params"]["ticks_per_second"])]}
    elif which == "sub-tick":
        c["params"]["duration"] = 0.5 / c["params"]["ticks_per_second"]
    elif which == "empty-class":
        c = _sim.random_sim_case(rng, small=True, workload="script", prio_weights=rng.choice([[0, 1, 1], [1, 0, 0], [0, 0, 1]]))
    elif which == "heavy-failure":
        c = _sim.random_sim_case(rng, small=True, workload="script", mem_levels=[0.6, 0.9, 1.5, 3.0], npipes=12)
    c["_directed"] = which
    return c


def recurring_ids_case(rng):
    """A trace of a real system names pipelines by job: the same pipeline_id comes back, each instance long finished
    before the next one arrives (instances alive at the same time would be an ill-formed workload: the whole package
    identifies a live pipeline by its id).  Every instance is a pipeline of its own and has to be counted."""
    algo = rng.choice(["naive", "priority", "priority-pool", "vtemplate", "overbook"])
    tps = rng.choice([1, 4, 10, 100])
    names = [("hourly_report", 3), ("dashboard", 1), ("nightly", 2), ("adhoc", 1)]
    gap = 40                     # ticks between two instances of one name; an instance needs <= 3 * 3 ticks
    arrivals = {}
    n_inst = rng.choice([3, 5, 9])
    for j, (name, nops) in enumerate(names):
        for k in range(n_inst):
            prio = rng.choice(gen.PRIOS)      # a repeat may come back with another priority
            ops = [_sim._tiny_op(tps, rng.choice([1, 2, 3]), parents=([i - 1] if i else [])) for i in range(nops)]
            arrivals.setdefault(str(j * 7 + k * gap), []).append({"pid": name, "prio": prio, "ops": ops})
    last = (n_inst - 1) * gap + 3 * 7
    # one more instance that is still running when the run stops
    arrivals.setdefault(str(last + gap), []).append(
        {"pid": "hourly_report", "prio": "BATCH_PIPELINE", "ops": [_sim._tiny_op(tps, 500)]})
    params = {"duration": (last + gap + 20) / tps, "ticks_per_second": tps, "num_pools": 2, "cpus_per_pool": 16,
              "ram_gb_per_pool": 64, "multi_operator_containers": True, "allow_memory_overcommit": algo == "overbook"}
    return {"kind": "sim", "algo": algo, "params": params, "workload": {"type": "script", "arrivals": arrivals},
            "_directed": "recurring-ids"}


def cases(tier, seed, shard, nshards):
    rng = rng_for(ID, seed, shard)
    yield recurring_ids_case(rng)
    for which in ("no-arrivals", "no-completions", "sub-tick", "empty-class", "heavy-failure", "empty-class"):
        yield directed(rng, which)
    for i in range(6 if tier == "quick" else 600):
        yield uncontended_case(rng)
    for i in range(N_SIM[tier]):
        yield _sim.random_sim_case(rng, small=rng.random() < 0.8, allow_pp_single=False, algos=_sim.ALGOS_PLUS)
    if tier == "thorough" and shard < 4:
        yield _sim.regression_case(shard)
    # scale cases: large in one dimension (one per shard for the first shards; all of them, twice, in the thorough tier)
    _kinds = ["many-small", "many-small", "crowd", "many-small"]
    for _j, _kd in enumerate(_kinds * (1 if tier == "quick" else 2)):
        if tier == "thorough" or _j == shard:
            _k, _, _a = _kd.partition(":")
            yield _sim.scale_case(rng, _k, algo=_a or None)
    if tier == "thorough":
        for _k in range(2):
            yield _sim.long_sim_case(rng, algos=_sim.ALGOS_PLUS)


def run_case(case, mon):
    h = _sim.run_sim_case(case, mon, ID, nontrivial=lambda h: h.stats is not None)
    if case.get("_directed") == "recurring-ids" and h.stats is not None:
        ids = {p.pipeline_id for p in h.pipelines}
        done = sum(1 for p in h.pipelines if p.runtime_status().is_pipeline_successful())
        if len(ids) < len(h.pipelines) and done > len(ids):
            mon.count("runs_with_recurring_pipeline_ids")
            mon.count("recurring_id_instances_completed", done)
