"""Shared plumbing for the properties decided on the SIM driver."""
import os

from .. import gen

ALGOS = ("naive", "priority", "priority-pool", "overbook", "vtemplate")
ALGOS_PLUS = ALGOS + ("vrandom", "vrandom")      # + a seeded random admissible policy (not a shipped scheduler)
REG_DIR = "tests/regression"
REG_NAMES = ["naive_defaults_10m", "naive_solo_ops_10m", "priority_defaults_10m", "priority_suspensions_10m"]


def random_sim_case(rng, kind="sim", small=True, algos=ALGOS, allow_pp_single=False, max_ticks=None,
                    workload=None, prio_weights=None, npipes=None, mem_levels=None, tps=None, pools=None):
    algo = rng.choice(list(algos))
    tps = tps or gen.pick_tps(rng, small=rng.random() < 0.8)
    max_ticks = max_ticks or rng.choice([60, 200, 600, 1500, rng.randint(40, 900), rng.randint(40, 900)])
    # durations need not be a whole number of ticks (the run then covers floor(duration * tps) ticks)
    duration = (max_ticks + rng.choice([0, 0, 0, 0.25, 0.5])) / tps
    if pools is None:
        pools = 2 if algo == "priority-pool" else (rng.choice([1, 1, 2, 3, 4]) if rng.random() < 0.9 else rng.choice([8, 16, 33]))
    cpus = rng.choice([1, 2, 4, 10, 64] if small else [4, 10, 64]) if rng.random() < 0.95 else rng.choice([1000, 4096])
    ram = rng.choice([0.5, 1, 4, 16, 30, 64] if small else [16, 64, 256]) if rng.random() < 0.95 else rng.choice([0.1, 2048, 8192])
    if rng.random() < 0.12:
        ram = rng.choice([0.75, 1.5, 2.5, 7.25, 30.7])      # pool sizes need not be whole GB
    multi = rng.random() < 0.6
    if algo == "priority-pool" and not allow_pp_single:
        multi = True
    params = {
        "duration": duration, "ticks_per_second": tps, "num_pools": pools, "cpus_per_pool": cpus, "ram_gb_per_pool": ram,
        "multi_operator_containers": multi,
        "allow_memory_overcommit": True if algo == "overbook" else (rng.random() < 0.2),
        "random_seed": rng.randint(0, 10 ** 6) if rng.random() < 0.9 else rng.choice([0, 0, 2 ** 32 - 1, 2 ** 40]),
    }
    if algo == "vrandom":
        params["vrandom_seed"] = rng.randint(0, 10 ** 9)
        params["vrandom_p_suspend"] = rng.choice([0.0, 0.3, 0.8])
    wtype = workload or rng.choice(["script", "script", "script", "generator"])
    if wtype == "generator":
        iq = rng.choice(gen.PROB_TRIPLES)
        params.update({
            "waiting_seconds_mean": max(1, rng.choice([2, 5, 20, 60])) / tps * rng.choice([1, 1, 3]),
            "num_pipelines": rng.choice([1, 2, 4]), "num_operators": rng.choice([1, 2, 5]),
            "interactive_prob": iq[0], "query_prob": iq[1], "batch_prob": iq[2],
            "cpu_io_ratio": rng.choice([0.0, 0.25, 0.5, 0.75, 1.0]),
        })
        # generator prototypes read up to 55 GB: 2.75 s of I/O -> keep the run long enough to finish something
        wl = {"type": "generator"}
    else:
        n = npipes or rng.choice([1, 2, 4, 8, 16, 30])
        arrivals = {}
        levels = mem_levels or [0.01, 0.05, 0.08, 0.15, 0.3, 0.6, 1.5]
        burst = rng.random() < 0.4
        for i in range(n):
            t = rng.choice([0, 0, 1, 2]) if burst and rng.random() < 0.6 else rng.randrange(0, max(1, int(max_ticks * 0.7)))
            prio = rng.choices(gen.PRIOS, weights=prio_weights or [2, 3, 4])[0]
            nops = 1 if (prio == "QUERY" and rng.random() < 0.7) else None
            spec = gen.simple_pipeline(rng, f"p{i}", tps, nops=nops, prio=prio, mode=rng.choice(["safe", "safe", "edgy"]),
                                       cpus_hint=rng.choice([1, max(1, cpus // 10), cpus]),
                                       mem_ref=ram * rng.choice(levels), maxn=rng.choice([3, 6, 12]))
            arrivals.setdefault(str(t), []).append(spec)
        wl = {"type": "script", "arrivals": arrivals}
    case = {"kind": kind, "algo": algo, "params": params, "workload": wl}
    if rng.random() < 0.25:
        # a second simulation (same policy, colliding pipeline ids, its own executor / scheduler / generator) is
        # created at this tick and stepped in lock-step from then on
        case["foreign_from"] = rng.choice([0, 3, 10])
    return case


def regression_case(i):
    import tomllib
    from .. import env
    name = REG_NAMES[i % len(REG_NAMES)]
    d = os.path.join(env.REPO, REG_DIR, name)
    with open(os.path.join(d, "params.toml"), "rb") as f:
        params = tomllib.load(f)
    algo = params.pop("scheduler_algo")
    return {"kind": "sim", "algo": algo, "params": params, "workload": {"type": "trace", "path": os.path.join(d, "trace.csv")},
            "_regression": name}


def monitors_for(prop, case):
    from .. import simmon as M
    algo = case["algo"]
    if prop in ("C01", "C02"):
        return [M.LifecycleMon()]
    if prop == "C03":
        return [M.ConservationMon()]
    if prop in ("C04", "C11"):
        return [M.MemoryMon()]
    if prop == "C06":
        return [M.StatsMon(uncontended=bool(case.get("_uncontended")))]
    if prop == "C09":
        return [M.LedgerMon()]
    if prop == "C12":
        if algo == "priority":
            return [M.PriorityMon(False), M.FifoMon("C12"), M.ResumeMon()]
        if algo == "priority-pool":
            return [M.PriorityMon(True), M.FifoMon("C12")]
        return [M.NoSuspensionMon("C12")]
    if prop == "C16":
        return [M.PoolIsolationMon()]
    if prop == "C17":
        return [M.NaiveMon(), M.FifoMon("C17", by_class=False), M.NoSuspensionMon("C17")]
    if prop == "C18":
        return [M.OverbookMon(), M.NoSuspensionMon("C18")]
    return []


def scale_counters(h, mon):
    """Which *sizes* one run reached (latent faults sit behind sizes: bounded histories, periodic clean-ups, counters
    that wrap).  Properties list the ones their scale cases are meant to deliver in REQUIRE, so that losing one makes
    the check inconclusive instead of blind."""
    exits, susp, started = {}, {}, {}
    for ci in h.conts.values():
        started[ci.pool] = started.get(ci.pool, 0) + 1
        if ci.status in ("ok", "failed"):
            exits[ci.pool] = exits.get(ci.pool, 0) + 1
        elif ci.status == "suspended":
            susp[ci.pool] = susp.get(ci.pool, 0) + 1
    done_by_class, failed_pipes = {}, 0
    for p in h.pipelines:
        rs = p.runtime_status()
        try:
            if rs.is_pipeline_successful():
                done_by_class[p.priority.name] = done_by_class.get(p.priority.name, 0) + 1
            elif any(st.value == "failed" for st in rs.operator_states.values()):
                failed_pipes += 1
        except Exception:
            pass
    marks = [
        ("run_of_more_than_4096_ticks", h.tick + 1 > 4096),
        ("run_with_more_than_512_pipelines", len(h.pipelines) > 512),
        ("run_with_more_than_8192_pipelines", len(h.pipelines) > 8192),
        ("run_with_more_than_100000_pipelines", len(h.pipelines) > 100000),
        ("run_with_more_than_16384_suspensions_on_one_pool", max(susp.values(), default=0) > 16384),
        ("run_with_more_than_1024_completions_of_one_class", max(done_by_class.values(), default=0) > 1024),
        ("run_with_more_than_256_failed_pipelines", failed_pipes > 256),
        ("run_with_more_than_1000_exits_on_one_pool", max(exits.values(), default=0) > 1000),
        ("run_with_more_than_4096_exits_on_one_pool", max(exits.values(), default=0) > 4096),
        ("run_with_more_than_1024_starts_on_one_pool", max(started.values(), default=0) > 1024),
        ("run_with_more_than_128_suspensions_on_one_pool", max(susp.values(), default=0) > 128),
        ("run_with_more_than_8_pools", int(h.params.get("num_pools", 1)) > 8),
    ]
    for name, ok in marks:
        if ok:
            mon.count("scale:" + name)


def run_sim_case(case, mon, prop, extra_monitors=None, nontrivial=None):
    from ..simworld import Harness
    from ..execworld import ANY
    mons = monitors_for(prop, case) + list(extra_monitors or [])
    case = dict(case)
    h = Harness(case["params"], case["algo"], gen.strip(case["workload"]), mons, foreign_from=case.get("foreign_from"))
    h.run()
    if h.foreign_error is not None:
        # the second simulation is a valid configuration: it has to run, whatever the observed run does next to it
        mon.fail("concurrent-simulation-raised", "a second, independent simulation stepped in the same process raised: "
                 + h.foreign_error.strip().splitlines()[-1], algo=case["algo"], traceback=h.foreign_error)
    if h.foreign is not None:
        mon.count("sim_runs_next_to_a_second_live_simulation")
    if h.monitor_error is not None:
        mon.error("monitor failed (no verdict from this run): " + h.monitor_error)
        return h
    for k, v in h.events.items():
        mon.count(k, v)
    mon.count("sim_runs")
    mon.count("sim_runs:" + case["algo"] + ("/multi" if h.params.get("multi_operator_containers") else "/single"))
    mon.count("sim_ticks", h.tick + 1)
    mon.count("sim_containers", len(h.conts))
    mon.count("sim_pipelines", len(h.pipelines))
    mon.count("sim_suspensions", h.n_suspended)
    scale_counters(h, mon)
    if h.exc is not None:
        mon.count("sim_run_raised")
        if prop == "C08":
            mon.fail("run-raised", f"{case['algo']}: {type(h.exc).__name__}: {h.exc} (tick {h.tick}, in {h.exc_where})",
                     algo=case["algo"], multi_operator_containers=bool(h.params.get("multi_operator_containers")),
                     exc_type=type(h.exc).__name__, exc_msg=str(h.exc), tick=h.tick, where=h.exc_where,
                     last_decision=h.last_decision, traceback=h.exc_tb,
                     max_ops_per_pipeline=max((len(p.runtime_status().operator_states) for p in h.pipelines), default=0))
        if prop == "C06" and h.exc_where == "simulator":
            mon.fail("statistics-raised", f"{case['algo']}: run_simulator raised outside scheduler and executor "
                                          f"(bookkeeping / statistics): {type(h.exc).__name__}: {h.exc}",
                     algo=case["algo"], tick=h.tick, max_ticks=h.max_ticks, traceback=h.exc_tb,
                     containers_ended=h.n_ok + h.n_failed, pipelines=len(h.pipelines))
    mine = [p for p in h.problems if prop in p.tags or ANY in p.tags]
    seen = set()
    for p in mine:
        if p.kind in seen:
            continue
        seen.add(p.kind)
        mon.fail(p.kind, p.msg, tick=p.step, tags=list(p.tags), algo=case["algo"])
    if nontrivial is None:
        nt = len(h.conts) > 0
    else:
        nt = nontrivial(h)
    if nt:
        mon.hit({"algo": case["algo"], "ticks": h.tick + 1, "pipelines": len(h.pipelines), "containers": len(h.conts),
                 "ok": h.n_ok, "failed": h.n_failed, "suspended": h.n_suspended,
                 "stats": (h.stats.to_dict() if h.stats is not None else None)})
    return h


def preemption_case(rng, algo="priority", oom=False, identical=False):
    """Load pattern that makes the priority scheduler preempt: multi-operator batch/interactive
    pipelines fill the pools (10% each), then queries arrive and must wait for an operator
    boundary of a running container; suspended work is resumed later."""
    tps = rng.choice([1, 2, 5, 10, 20, 100])
    pools = 2 if algo == "priority-pool" else rng.choice([1, 1, 2])
    cpus = rng.choice([10, 10, 16, 20])
    R = rng.choice([10, 10, 40, 100, 400])
    job_ram = max(1, int(R / 10))
    arrivals = {}
    nfill = pools * rng.randint(12, 20)
    for j in range(nfill):
        t = rng.choice([0, 0, 0, 1, 2, 3])
        prio = rng.choice(["BATCH_PIPELINE", "BATCH_PIPELINE", "INTERACTIVE"])
        spec = gen.simple_pipeline(rng, f"f{j}", tps, nops=rng.choice([2, 3, 4, 5]), prio=prio, shape=rng.choice(["chain", "chain", "random"]),
                                   mode="safe", cpus_hint=1, mem_ref=job_ram * 0.05, maxn=rng.choice([2, 4, 8]), nseg_max=1)
        for o in spec["ops"]:
            for s in o["segs"]:
                big = oom and rng.random() < 0.15
                s["mem"] = job_ram * (rng.choice([1.5, 3.0]) if big else rng.choice([0.01, 0.1, 0.5]))
        if identical and j > 0:
            import copy
            spec = copy.deepcopy(first_spec)
            spec["pid"] = f"f{j}"
            t = 0
        else:
            first_spec = spec
        arrivals.setdefault(str(t), []).append(spec)
    for j in range(rng.randint(2, 10)):
        t = rng.randint(1, 40)
        spec = gen.simple_pipeline(rng, f"q{j}", tps, nops=rng.choice([1, 1, 2]), prio="QUERY", shape="chain", mode="safe",
                                   cpus_hint=1, mem_ref=job_ram * 0.1, maxn=3, nseg_max=1)
        for o in spec["ops"]:
            for s in o["segs"]:
                s["mem"] = job_ram * rng.choice([0.01, 0.3])
        arrivals.setdefault(str(t), []).append(spec)
    for j in range(rng.randint(0, 8)):
        t = rng.randint(10, 120)
        arrivals.setdefault(str(t), []).append(
            gen.simple_pipeline(rng, f"l{j}", tps, nops=rng.choice([1, 3]), prio=rng.choice(gen.PRIOS), mode="safe", cpus_hint=1,
                                mem_ref=job_ram * 0.1, maxn=4, nseg_max=1))
    params = {"duration": rng.choice([150, 300, 500]) / tps, "ticks_per_second": tps, "num_pools": pools, "cpus_per_pool": cpus,
              "ram_gb_per_pool": R, "multi_operator_containers": True, "allow_memory_overcommit": False}
    case = {"kind": "sim", "algo": algo, "params": params, "workload": {"type": "script", "arrivals": arrivals}, "_preempt": True}
    if rng.random() < 0.3:
        case["foreign_from"] = rng.choice([0, 2, 5])        # a second live simulation next to this one
    return case


def long_sim_case(rng, algos=ALGOS, ticks=None):
    """One long run with a steady generated workload: hundreds to thousands of pipelines and
    containers inside a single simulation (latent faults: bounded histories, drifting
    counters, periodic clean-ups)."""
    algo = rng.choice(list(algos))
    tps = rng.choice([5, 10, 20])
    ticks = ticks or rng.choice([20000, 30000])
    iq = rng.choice([(0.3, 0.1, 0.6), (0.3, 0.3, 0.4), (0.0, 0.25, 0.75)])
    params = {
        "duration": ticks / tps, "ticks_per_second": tps,
        "num_pools": 2 if algo == "priority-pool" else rng.choice([1, 2, 4]),
        "cpus_per_pool": rng.choice([16, 64]), "ram_gb_per_pool": rng.choice([128, 256]),
        "multi_operator_containers": True if algo == "priority-pool" else rng.random() < 0.6,
        "allow_memory_overcommit": algo == "overbook",
        "waiting_seconds_mean": rng.choice([2.0, 4.0]), "num_pipelines": rng.choice([1, 2, 3]),
        "num_operators": rng.choice([2, 4]), "interactive_prob": iq[0], "query_prob": iq[1], "batch_prob": iq[2],
        "cpu_io_ratio": 0.5, "random_seed": rng.randint(0, 10 ** 6),
    }
    if algo == "vrandom":
        params["vrandom_seed"] = rng.randint(0, 10 ** 9)
        params["vrandom_p_suspend"] = 0.3
    return {"kind": "sim", "algo": algo, "params": params, "workload": {"type": "generator"}, "_long": True}


def _tiny_op(tps, ticks=1, mem=0.01, parents=()):
    return {"parents": list(parents), "segs": [{"cpu": (ticks + 0.5) / tps, "law": "const", "mem": mem, "read": 0.0}]}


def scale_case(rng, kind, algo=None):
    """Cheap runs that are *large in one dimension* (latent faults: bounded histories, periodic
    clean-ups, counters that wrap, caches that evict):
      storm      - hundreds of preemption cycles on one tiny pool (priority): > 128 suspensions in one pool
      many-small - thousands of tiny pipelines, steady arrivals: > 1024 completions of one class, > 512 pipelines,
                   > 4096 container exits on one pool, pool tick counters far beyond 4096
      crowd      - ~9000 pipelines outstanding at once (anything keyed or cached per pipeline)
      fail-sibs  - overbook: hundreds of filler pipelines while a two-root pipeline fails three times and its sibling runs on
    """
    tps = 10
    if kind == "storm":
        cycles = rng.randint(180, 260)
        arrivals = {}
        t = 0
        for c in range(cycles):
            arrivals.setdefault(str(t), []).append({"pid": f"b{c}", "prio": rng.choice(["BATCH_PIPELINE", "INTERACTIVE"]),
                                                    "ops": [_tiny_op(tps, 2), _tiny_op(tps, 2, parents=[0])]})
            arrivals.setdefault(str(t + 1), []).append({"pid": f"q{c}", "prio": "QUERY", "ops": [_tiny_op(tps, 1)]})
            t += rng.choice([7, 8, 9])
        params = {"duration": (t + 40) / tps, "ticks_per_second": tps, "num_pools": 1, "cpus_per_pool": 1, "ram_gb_per_pool": 2,
                  "multi_operator_containers": True}
        return {"kind": "sim", "algo": "priority", "params": params, "workload": {"type": "script", "arrivals": arrivals},
                "_scale": kind}
    if kind == "huge-queue":
        # > 131,072 pipelines waiting at once (bounded queues / deques with maxlen drop the oldest silently)
        n = 140000
        arrivals = {"0": [{"pid": f"h{i}", "prio": PRIOS_L[i % 3], "ops": [_tiny_op(tps, 1)]} for i in range(n)]}
        params = {"duration": 12 / tps, "ticks_per_second": tps, "num_pools": 2, "cpus_per_pool": 4, "ram_gb_per_pool": 8,
                  "multi_operator_containers": True, "allow_memory_overcommit": (algo == "overbook")}
        return {"kind": "sim", "algo": algo or "naive", "params": params, "workload": {"type": "script", "arrivals": arrivals},
                "_scale": kind}
    if kind == "huge-ids":
        # > 100,000 distinct pipeline ids pass one scheduler while one pipeline keeps failing (tables keyed by pipeline
        # id that are trimmed / compacted "when they get large")
        # the failing pipeline grows 2 GB per tick in a 10 GB pool: every attempt runs for five ticks before it is killed
        arrivals = {"0": [{"pid": "victim", "prio": "BATCH_PIPELINE", "ops": [
            {"parents": [], "segs": [{"cpu": 1.5 / tps, "law": "const", "mem": None, "read": 20.0 * 60.5 / tps}]}]}]}
        n = 100200
        for i in range(n):
            # all of them arrive while the failing pipeline's second attempt is running, on a pool wide enough to start them at once
            arrivals.setdefault("8", []).append({"pid": f"i{i}", "prio": PRIOS_L[i % 3], "ops": [_tiny_op(tps, 1, mem=0.00002)]})
        params = {"duration": 40 / tps, "ticks_per_second": tps, "num_pools": 1, "cpus_per_pool": n + 50, "ram_gb_per_pool": 10,
                  "multi_operator_containers": False, "allow_memory_overcommit": True}
        return {"kind": "sim", "algo": algo or "overbook", "params": params, "workload": {"type": "script", "arrivals": arrivals},
                "_scale": kind}
    if kind == "huge-storm":
        # > 16,384 completed suspensions in one pool (histories of suspended containers that are capped or scanned
        # incrementally)
        arrivals = {}
        t = 0
        nb = 0
        while nb < 17500:
            for _ in range(10):
                arrivals.setdefault(str(t), []).append({"pid": f"b{nb}", "prio": "BATCH_PIPELINE",
                                                        "ops": [_tiny_op(tps, 1), _tiny_op(tps, 1, parents=[0])]})
                nb += 1
            for q in range(10):
                arrivals.setdefault(str(t + 1), []).append({"pid": f"q{nb}_{q}", "prio": "QUERY", "ops": [_tiny_op(tps, 1)]})
            t += 4
        params = {"duration": (t + 60) / tps, "ticks_per_second": tps, "num_pools": 1, "cpus_per_pool": 10, "ram_gb_per_pool": 10,
                  "multi_operator_containers": True}
        return {"kind": "sim", "algo": "priority", "params": params, "workload": {"type": "script", "arrivals": arrivals},
                "_scale": kind}
    if kind == "fail-crowd":
        # a backlog of pipelines most of which fail at once (they need more memory than the pool has)
        algo = algo or "naive"
        n = rng.randint(500, 700)
        arrivals = {}
        for i in range(n):
            big = rng.random() < 0.85
            arrivals.setdefault(str(rng.randint(0, 3)), []).append(
                {"pid": f"fc{i}", "prio": rng.choice(PRIOS_L), "ops": [_tiny_op(tps, rng.choice([1, 2]), mem=(10.0 if big else 0.5))]})
        params = {"duration": (n * 3 + 200) / tps, "ticks_per_second": tps, "num_pools": rng.choice([1, 2]), "cpus_per_pool": 4,
                  "ram_gb_per_pool": 4, "multi_operator_containers": rng.random() < 0.5, "allow_memory_overcommit": False}
        return {"kind": "sim", "algo": algo, "params": params, "workload": {"type": "script", "arrivals": arrivals}, "_scale": kind}
    if kind in ("many-small", "many-small-x2"):
        algo = algo or rng.choice(["naive", "priority", "priority-pool", "overbook", "vrandom"])
        n = rng.randint(4600, 5200) if kind == "many-small" else rng.randint(9300, 9900)
        prio_main = rng.choice(PRIOS_L)
        arrivals = {}
        t = 0
        for i in range(n):
            prio = prio_main if rng.random() < 0.85 else rng.choice(PRIOS_L)
            nops = rng.choice([1, 1, 2])
            # long-tailed run times, so that order statistics depend on which samples are kept
            # (a sparse tail: the top percent of the run times are all different values, no plateau at the 99th percentile)
            def _len():
                r = rng.random()
                return rng.randint(40, 300) if r < 0.012 else (rng.randint(1, 40) if r < 0.09 else rng.choice([1, 2]))
            ops = [_tiny_op(tps, _len(), parents=([k - 1] if k else [])) for k in range(nops)]
            if rng.random() < 0.03:
                ops[-1]["segs"][0]["mem"] = 1000.0        # an occasional OOM
            arrivals.setdefault(str(t), []).append({"pid": f"s{i}", "prio": prio, "ops": ops})
            if rng.random() < 0.5:
                t += 1
        pools = 2 if algo == "priority-pool" else 1
        params = {"duration": (t + 600) / tps, "ticks_per_second": tps, "num_pools": pools, "cpus_per_pool": 40, "ram_gb_per_pool": 80,
                  "multi_operator_containers": rng.random() < 0.5 or algo == "priority-pool",
                  "allow_memory_overcommit": algo == "overbook"}
        if algo == "vrandom":
            params["vrandom_seed"] = rng.randint(0, 10 ** 9)
            params["vrandom_p_suspend"] = 0.3
        return {"kind": "sim", "algo": algo, "params": params, "workload": {"type": "script", "arrivals": arrivals}, "_scale": kind}
    if kind == "crowd":
        algo = algo or rng.choice(["priority", "naive", "overbook"])
        n = rng.randint(8800, 9600)
        arrivals = {}
        for i in range(n):
            arrivals.setdefault(str(rng.randint(0, 5)), []).append(
                {"pid": f"c{i}", "prio": rng.choice(PRIOS_L), "ops": [_tiny_op(tps, rng.choice([1, 2]))]})
        params = {"duration": 260 / tps, "ticks_per_second": tps, "num_pools": 2, "cpus_per_pool": 10, "ram_gb_per_pool": 20,
                  "multi_operator_containers": True, "allow_memory_overcommit": algo == "overbook"}
        return {"kind": "sim", "algo": algo, "params": params, "workload": {"type": "script", "arrivals": arrivals}, "_scale": kind}
    if kind == "fail-sibs":
        n = rng.randint(650, 800)
        arrivals = {}
        for v in range(3):
            tv = v * 150
            arrivals.setdefault(str(tv), []).append({"pid": f"victim{v}", "prio": "BATCH_PIPELINE", "ops": [
                _tiny_op(tps, 1, mem=1000.0), _tiny_op(tps, rng.randint(200, 320))]})
        for i in range(n):
            arrivals.setdefault(str(1 + i // 2), []).append({"pid": f"f{i}", "prio": rng.choice(PRIOS_L), "ops": [_tiny_op(tps, 1)]})
        params = {"duration": (n // 2 + 400) / tps, "ticks_per_second": tps, "num_pools": 1, "cpus_per_pool": 4, "ram_gb_per_pool": 10,
                  "multi_operator_containers": False, "allow_memory_overcommit": True}
        return {"kind": "sim", "algo": "overbook", "params": params, "workload": {"type": "script", "arrivals": arrivals}, "_scale": kind}
    raise ValueError(kind)


PRIOS_L = list(gen.PRIOS)
