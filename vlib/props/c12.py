"""C12 - priority: strict priority order, work conservation, query-only preemption.

SIM under `priority` (all clauses) and `priority-pool` (order / FIFO / work conservation
within each pool); every scheduling round is judged on snapshots taken at the scheduler
boundary (P3): (a) lower-class work assigned only if no ready pending operator of a higher
class is left waiting; (b) first containers in arrival order per class; (c) a ready pending
operator waits only if every pool it may use is out of free CPU or RAM after the round;
(d) suspensions only by `priority`, never of query containers, only at operator boundaries,
only while a query job waits and at most one per waiting query job; (e) work returned by a
finished suspension is offered again - restated as bounded progress, i.e. covered by (c)
in the first round after the suspension ended.  Other shipped policies must not suspend."""
from ..core import rng_for
from .. import gen
from . import _sim

ID = "C12"
LEVEL = "exploration"
ANCHORS = ["eudoxia/scheduler/priority.py", "eudoxia/scheduler/priority_pool.py", "eudoxia/scheduler/waiting_queue.py",
           "eudoxia/executor/resource_pool.py"]
RULE = ("cases = simulations under priority / priority-pool: preemption-provoking load patterns (pools filled with multi-operator "
        "batch/interactive work, queries arriving later), random priority mixes and DAG workloads on 1..4 small pools, tick rates "
        "1..1000 (write-out from 1 tick up), both container modes, OOM/retry histories; non-trivial = a run with at least one "
        "round in which ready work was waiting; distinct = distinct configurations")
ASSUMPTIONS = [
    "FAILED operators are not 'waiting work': the policy may drop retries that do not fit; the statement speaks of pending operators",
    "the count of waiting query jobs is taken from outside (query pipelines with assignable unassigned operators), an upper bound of the scheduler's own queue",
    "the liveness clause is decided as bounded progress per round",
]
NSHARDS = {"quick": 16, "thorough": 16}
N_PRE = {"quick": 24, "thorough": 2500}
N_RND = {"quick": 30, "thorough": 3000}
REQUIRE = {"scale:run_with_more_than_128_suspensions_on_one_pool": 1, "rounds_checked": 5000, "rounds_with_waiting_work": 1000, "suspensions": 300, "one_tick_suspensions": 40,
           "resumed_jobs": 100, "first_containers": 2000, "sim_runs:priority/multi": 200, "sim_runs:priority/single": 50,
           "sim_runs:priority-pool/multi": 100, "rounds_assigning_while_higher_or_equal_waits": 20}


def cases(tier, seed, shard, nshards):
    rng = rng_for(ID, seed, shard)
    if tier == "thorough" and shard == 0:
        # > 16,384 completed suspensions in one pool (about three minutes; thorough tier only)
        yield _sim.scale_case(rng, "huge-storm")
    for i in range(N_PRE[tier]):
        yield _sim.preemption_case(rng, algo="priority" if rng.random() < 0.8 else "priority-pool", oom=rng.random() < 0.4)
    for i in range(N_RND[tier]):
        algo = rng.choice(["priority", "priority", "priority-pool"])
        yield _sim.random_sim_case(rng, small=True, algos=(algo,), workload="script",
                                   prio_weights=rng.choice([[2, 3, 4], [5, 1, 1], [1, 1, 5], [3, 3, 0]]),
                                   npipes=rng.choice([8, 16, 30, 50]), mem_levels=[0.01, 0.05, 0.08, 0.15, 0.3])
    for i in range(2):
        yield _sim.random_sim_case(rng, small=True, algos=("naive", "overbook", "vtemplate"))
    if tier == "thorough" and shard in (2, 3):
        yield _sim.regression_case(shard)
    # scale cases: large in one dimension (one per shard for the first shards; all of them, twice, in the thorough tier)
    _kinds = ["storm", "storm", "storm", "storm"]
    for _j, _kd in enumerate(_kinds * (1 if tier == "quick" else 2)):
        if tier == "thorough" or _j == shard:
            _k, _, _a = _kd.partition(":")
            yield _sim.scale_case(rng, _k, algo=_a or None)
    if tier == "thorough":
        for _k in range(2):
            yield _sim.long_sim_case(rng, algos=("priority", "priority", "priority-pool"))


def run_case(case, mon):
    _sim.run_sim_case(case, mon, ID, nontrivial=lambda h: h.events.get("rounds_with_waiting_work", 0) > 0 or h.n_suspended > 0)
