"""C17 - naive scheduler: whole-pool FIFO without retries or preemption.

SIM with 1..4 pools, DAG workloads, both modes, failure-provoking memory.  Per round (P3):
at most one assignment per pool, sized exactly to that pool's free CPU and RAM at the start
of the round; first containers in arrival order; never a suspension; nothing for a pipeline
that has a failed operator; in single-operator mode exactly one ready operator."""
from ..core import rng_for
from . import _sim

ID = "C17"
LEVEL = "exploration"
ANCHORS = ["eudoxia/scheduler/naive.py", "eudoxia/__main__.py"]
RULE = ("cases = naive simulations: 1..4 pools of any size, DAG and generated workloads, both container modes, memory profiles that "
        "fail; non-trivial = a run with at least one assignment; distinct = distinct configurations")
ASSUMPTIONS = ["pool free amounts are read at the scheduler boundary right before the round"]
NSHARDS = {"quick": 16, "thorough": 16}
N = {"quick": 60, "thorough": 6000}
REQUIRE = {"scale:run_with_more_than_100000_pipelines": 1, "scale:run_with_more_than_256_failed_pipelines": 1, "naive_assignments": 3000, "multi_pool_rounds": 200, "rounds_with_failed_pipelines": 300, "first_containers": 2000,
           "sim_runs:naive/multi": 200, "sim_runs:naive/single": 200}


def cases(tier, seed, shard, nshards):
    rng = rng_for(ID, seed, shard)
    if shard == 5:
        # one run far beyond every bounded structure one would think of: > 100,000 pipelines known to one scheduler
        yield _sim.scale_case(rng, "huge-queue")
    for i in range(N[tier]):
        yield _sim.random_sim_case(rng, small=rng.random() < 0.7, algos=("naive",), pools=rng.choice([1, 2, 3, 4]),
                                   mem_levels=[0.05, 0.3, 0.6, 0.9, 1.5], npipes=rng.choice([3, 8, 20]))
    if tier == "thorough" and shard in (0, 1):
        yield _sim.regression_case(shard)
    # scale cases: large in one dimension (one per shard for the first shards; all of them, twice, in the thorough tier)
    _kinds = ["many-small:naive", "fail-crowd:naive", "crowd:naive", "fail-crowd:naive"]
    for _j, _kd in enumerate(_kinds * (1 if tier == "quick" else 2)):
        if tier == "thorough" or _j == shard:
            _k, _, _a = _kd.partition(":")
            yield _sim.scale_case(rng, _k, algo=_a or None)
    if tier == "thorough":
        for _k in range(2):
            yield _sim.long_sim_case(rng, algos=("naive",))


def run_case(case, mon):
    _sim.run_sim_case(case, mon, ID, nontrivial=lambda h: h.events.get("naive_assignments", 0) > 0)
