"""C08 - valid configurations run to the end; shipped schedulers decide admissibly.

SIM over generated valid configurations x well-formed workloads, weighted to corners: tick
rates 1 and 10^5, one CPU, sub-GB pools, runs shorter than one tick, decimal probability
triples whose float sum is not exactly 1, both container modes, DAG workloads with segments
that round to zero ticks, single-operator and wide pipelines; naive, priority, priority-pool
(two pools), overbook (overcommit on) and the starter template rendered from `eudoxia init`.
A subset goes through the CLI entry (`eudoxia run`).  Oracle: the run returns a statistics
object; any escaping exception is a violation (inadmissible decisions surface as the
executor's own assertion errors)."""
import os

from ..core import rng_for
from .. import gen, env
from . import _sim

ID = "C08"
LEVEL = "exploration"
ANCHORS = ["eudoxia/simulator.py", "eudoxia/scheduler/naive.py", "eudoxia/scheduler/priority.py",
           "eudoxia/scheduler/priority_pool.py", "eudoxia/scheduler/overbook.py", "eudoxia/__main__.py",
           "eudoxia/executor/resource_pool.py", "eudoxia/executor/container.py", "eudoxia/executor/assignment.py"]
RULE = ("cases = (configuration, workload) pairs generated from corner classes (see module doc) for each of the five shipped "
        "policies; non-trivial = the run scheduled at least one container or belongs to a directed corner class (sub-tick run, "
        "no arrivals); distinct = distinct configurations")
ASSUMPTIONS = [
    "validity of generated configurations and well-formedness of workloads are by construction of the generators",
    "duration 0 and non-positive tick rates are outside 'valid'",
    "known finding C08-priority-pool-single-operator-mode is reported as KNOWN-FINDING, every other exception is a violation",
]
NSHARDS = {"quick": 16, "thorough": 16}
N_SIM = {"quick": 110, "thorough": 3500}
REQUIRE = {"scale:run_with_more_than_8192_pipelines": 1, "scale:run_with_more_than_4096_exits_on_one_pool": 1, "sim_runs": 1500, "corner:tps1": 50, "corner:tps100000": 30, "corner:one_cpu": 100, "corner:sub_gb": 100,
           "corner:sub_tick_run": 16, "corner:decimal_triple": 50, "corner:zero_tick_segments": 100, "cli_runs": 16, "cli_init_runs": 16,
           "sim_runs:vtemplate/single": 30, "sim_runs:overbook/single": 30, "sim_runs:priority-pool/multi": 30,
           "sim_runs:naive/multi": 30, "sim_runs:priority/single": 30, "sim_suspensions": 40}


def corner_case(rng):
    algo = rng.choice(_sim.ALGOS)
    tps = rng.choice([1, 1, 2, 10, 100, 1000, 100000, 100000, rng.randint(1, 100000)])
    max_ticks = rng.choice([0, 1, 3, 40, 200, 800])
    duration = (max_ticks + rng.choice([0.0, 0.5])) / tps
    if duration <= 0:
        duration = 0.5 / tps
    pools = 2 if algo == "priority-pool" else rng.choice([1, 2, 4])
    cpus = rng.choice([1, 1, 2, 10, 64])
    ram = rng.choice([0.25, 0.5, 0.3, 1, 4, 30, 256])
    multi = rng.random() < 0.5
    allow_pp_single = rng.random() < 0.15
    if algo == "priority-pool" and not allow_pp_single:
        multi = True
    iq = rng.choice(gen.PROB_TRIPLES)
    params = {"duration": duration, "ticks_per_second": tps, "num_pools": pools, "cpus_per_pool": cpus, "ram_gb_per_pool": ram,
              "multi_operator_containers": multi, "allow_memory_overcommit": True if algo == "overbook" else rng.random() < 0.2,
              "interactive_prob": iq[0], "query_prob": iq[1], "batch_prob": iq[2],
              "random_seed": rng.randint(0, 10 ** 6)}
    if rng.random() < 0.35:
        params.update({"waiting_seconds_mean": rng.choice([0.3, 1, 5, 30, 200]) / tps * rng.choice([1, 1, 2.5]),
                       "num_pipelines": rng.choice([1, 2, 4, 10]), "num_operators": rng.choice([1, 2, 5, 12]),
                       "cpu_io_ratio": rng.choice([0.0, 0.3, 0.5, 1.0])})
        wl = {"type": "generator"}
    else:
        arrivals = {}
        n = rng.choice([0, 1, 3, 8, 20])
        for i in range(n):
            t = rng.choice([0, 0, 1]) if rng.random() < 0.5 else rng.randrange(0, max(1, max_ticks))
            spec = gen.simple_pipeline(rng, f"p{i}", tps, nops=rng.choice([1, 1, 2, 4, 8, 12]),
                                       mode=rng.choice(["edgy", "edgy", "safe"]), cpus_hint=rng.choice([1, cpus]),
                                       mem_ref=ram * rng.choice([0.01, 0.08, 0.3, 1.5]), maxn=rng.choice([2, 6]))
            arrivals.setdefault(str(t), []).append(spec)
        wl = {"type": "script", "arrivals": arrivals}
    case = {"kind": "sim", "algo": algo, "params": params, "workload": wl, "_cli": rng.random() < 0.04}
    if not case["_cli"] and rng.random() < 0.2:
        case["foreign_from"] = rng.choice([0, 3, 10])       # a second live simulation next to this one
    return case


def cases(tier, seed, shard, nshards):
    rng = rng_for(ID, seed, shard)
    # recorded witness of the open finding (priority-pool, single-operator mode, 2-operator pipeline)
    if shard == 0:
        spec = {"pid": "w", "prio": "BATCH_PIPELINE", "ops": [
            {"parents": [], "segs": [{"cpu": 0.5, "law": "const", "mem": 0.1, "read": 0.0}]},
            {"parents": [0], "segs": [{"cpu": 0.5, "law": "const", "mem": 0.1, "read": 0.0}]}]}
        yield {"kind": "sim", "algo": "priority-pool", "_witness": True,
               "params": {"duration": 5, "ticks_per_second": 10, "num_pools": 2, "cpus_per_pool": 4, "ram_gb_per_pool": 8,
                          "multi_operator_containers": False},
               "workload": {"type": "script", "arrivals": {"0": [spec]}}}
    for i in range(N_SIM[tier]):
        yield corner_case(rng)
    for i in range(max(6, N_SIM[tier] // 10)):
        yield _sim.preemption_case(rng, algo=rng.choice(["priority", "priority", "priority-pool"]), oom=rng.random() < 0.5)
    # scale cases (latent faults): one per shard in the quick tier, all of them in the thorough tier
    _kinds = ["storm", "many-small:naive", "many-small:priority", "many-small:priority-pool", "many-small:overbook", "many-small:vtemplate",
              "crowd:priority", "crowd:naive", "crowd:overbook", "fail-sibs", "crowd:vtemplate", "many-small:priority"]
    for _j, _kd in enumerate(_kinds):
        if tier == "thorough" or _j == shard:
            _k, _, _a = _kd.partition(":")
            yield _sim.scale_case(rng, _k, algo=_a or None)
    for i in range(2):
        c = corner_case(rng)
        c["_cli_init"] = True
        c["algo"] = "vtemplate"
        c["workload"] = {"type": "generator"}
        c["params"].update({"waiting_seconds_mean": 3 / c["params"]["ticks_per_second"], "num_pipelines": 2, "num_operators": 3,
                            "cpu_io_ratio": 0.5, "allow_memory_overcommit": False})
        yield c
    for i in range(2):
        c = corner_case(rng)
        c["_cli"] = True
        c["workload"] = {"type": "generator"}
        c["params"].update({"waiting_seconds_mean": 3 / c["params"]["ticks_per_second"], "num_pipelines": 2, "num_operators": 3,
                            "cpu_io_ratio": 0.5})
        yield c


def zero_tick_segments(case):
    if case["workload"]["type"] != "script":
        return 0
    n = 0
    for specs in case["workload"]["arrivals"].values():
        for sp in specs:
            for o in sp["ops"]:
                for s in o["segs"]:
                    if "zero" in s.get("_cls", "") or "subtick" in s.get("_cls", ""):
                        n += 1
    return n


def run_cli(case, mon):
    """`eudoxia run params.toml` through the CLI entry point (generator workload)."""
    import io
    import contextlib
    import tomlkit
    import eudoxia.__main__ as em
    d = os.path.join(env.VERIF_DIR, ".work", f"c08-cli-{os.getpid()}")
    os.makedirs(d, exist_ok=True)
    path = os.path.join(d, "params.toml")
    params = dict(case["params"])
    algo = case["algo"]
    if algo == "vtemplate":
        from ..simworld import ensure_template
        ensure_template()
    params["scheduler_algo"] = algo
    t = tomlkit.table()
    t.update(params)
    with open(path, "w") as f:
        tomlkit.dump(t, f)
    out = io.StringIO()
    try:
        with contextlib.redirect_stdout(out), contextlib.redirect_stderr(out):
            em.main(["run", path])
        mon.count("cli_runs")
        if "Simulation completed" not in out.getvalue():
            mon.fail("cli-no-report", "eudoxia run returned without printing its report", params=params)
        else:
            mon.hit({"cli": True, "algo": algo, "report_head": out.getvalue()[:200]})
    except SystemExit as e:
        mon.fail("run-raised", f"eudoxia run exited with {e.code}: {out.getvalue()[-300:]}", algo=algo,
                 multi_operator_containers=bool(params.get("multi_operator_containers")), exc_type="SystemExit", exc_msg=str(e.code))
    except Exception as e:
        import traceback
        mon.count("cli_runs")
        mon.fail("run-raised", f"eudoxia run ({algo}) raised {type(e).__name__}: {e}", algo=algo,
                 multi_operator_containers=bool(params.get("multi_operator_containers")), exc_type=type(e).__name__,
                 exc_msg=str(e), traceback=traceback.format_exc()[-1500:], max_ops_per_pipeline=params.get("num_operators", 0) + 1)
    finally:
        try:
            os.remove(path)
            os.rmdir(d)
        except OSError:
            pass


_init_counter = [0]


def run_cli_init(case, mon):
    """The documented flow for the starter scheduler: `eudoxia init cfg.toml -s NAME`, then
    `eudoxia run -i NAME cfg.toml` (the module is imported from the directory of the file)."""
    import io
    import sys
    import shutil
    import contextlib
    import tomllib
    import tomlkit
    import eudoxia.__main__ as em
    _init_counter[0] += 1
    name = f"vstart_{os.getpid()}_{_init_counter[0]}"
    d = os.path.join(env.VERIF_DIR, ".work", f"c08-init-{os.getpid()}-{_init_counter[0]}")
    os.makedirs(d, exist_ok=True)
    cfg = os.path.join(d, "cfg.toml")
    out = io.StringIO()
    try:
        with contextlib.redirect_stdout(out), contextlib.redirect_stderr(out):
            em.main(["init", cfg, "-s", name])
        with open(cfg, "rb") as f:
            params = tomllib.load(f)
        if params.get("scheduler_algo") != name or not os.path.exists(os.path.join(d, name + ".py")):
            mon.fail("init-output", f"eudoxia init -s {name} did not produce the scheduler file / setting", params=params)
            return
        params.update({k: v for k, v in case["params"].items()})
        params["scheduler_algo"] = name
        t = tomlkit.table()
        t.update(params)
        with open(cfg, "w") as f:
            tomlkit.dump(t, f)
        sys.path.insert(0, d)
        try:
            with contextlib.redirect_stdout(out), contextlib.redirect_stderr(out):
                em.main(["run", "-i", name, cfg])
        finally:
            sys.path.remove(d)
        mon.count("cli_init_runs")
        if "Simulation completed" not in out.getvalue():
            mon.fail("cli-no-report", "eudoxia run -i <starter> returned without printing its report", params=params)
        else:
            mon.hit({"cli_init": True, "report_head": out.getvalue()[-400:][:200]})
    except SystemExit as e:
        mon.fail("run-raised", f"starter scheduler via CLI exited with {e.code}: {out.getvalue()[-300:]}", algo="init-template",
                 multi_operator_containers=bool(case["params"].get("multi_operator_containers")), exc_type="SystemExit", exc_msg=str(e.code))
    except Exception as e:
        import traceback
        mon.fail("run-raised", f"starter scheduler via CLI raised {type(e).__name__}: {e}", algo="init-template",
                 multi_operator_containers=bool(case["params"].get("multi_operator_containers")), exc_type=type(e).__name__,
                 exc_msg=str(e), traceback=traceback.format_exc()[-1500:])
    finally:
        shutil.rmtree(d, ignore_errors=True)


def run_case(case, mon):
    p = case["params"]
    tps = p["ticks_per_second"]
    if tps == 1:
        mon.count("corner:tps1")
    if tps == 100000:
        mon.count("corner:tps100000")
    if p["cpus_per_pool"] == 1:
        mon.count("corner:one_cpu")
    if p["ram_gb_per_pool"] < 1:
        mon.count("corner:sub_gb")
    if int(p["duration"] * tps) == 0:
        mon.count("corner:sub_tick_run")
    if p.get("interactive_prob", 0.3) + p.get("query_prob", 0.1) + p.get("batch_prob", 0.6) != 1:
        mon.count("corner:decimal_triple")
    mon.count("corner:zero_tick_segments", zero_tick_segments(case))
    if case.get("_cli_init"):
        return run_cli_init(case, mon)
    if case.get("_cli") and case["workload"]["type"] == "generator":
        return run_cli(case, mon)
    sub = int(p["duration"] * tps) == 0
    _sim.run_sim_case(case, mon, ID, nontrivial=lambda h: len(h.conts) > 0 or sub or not h.pipelines)
