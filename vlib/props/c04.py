"""C04 - memory limits hold after every tick and reported usage is the real usage.

EXEC: adaptive scripts with memory-heavy fixed and growing operators, allocations around the
peak, suspensions followed by new starts (the scenario in which phantom usage turns into a
spurious kill), with and without overcommit.  SIM: priority (preemptions) and overbook
(overcommit) end to end.  After every tick: use <= allocation for running containers, pool
use <= capacity, reported use == sum of running containers' use; every failure must be
justified by the independent demand model (M3) / kill acceptor (M5)."""
from ..core import rng_for
from . import _exec, _sim

ID = "C04"
LEVEL = "exploration"
ANCHORS = ["eudoxia/executor/resource_pool.py", "eudoxia/executor/container.py"]
RULE = ("cases = adaptive command scripts (memory-heavy pipelines, suspensions, overcommit on/off) and simulations under "
        "priority / overbook / naive / priority-pool; non-trivial = a container used memory across >= 1 tick and an OOM kill, "
        "a suspension or a completion happened; distinct = distinct recorded scripts / simulation configurations")
ASSUMPTIONS = [
    "per-tick demand from the independent container model M3; pool-level kills judged clause by clause (M5)",
    "limit comparisons within 1e-9 relative are accepted either way; reported-vs-real usage equal within 1e-6 GB",
    "suspending containers are not 'running': their memory is not part of the pool's reported use",
]
NSHARDS = {"quick": 16, "thorough": 16}
N_MIX = {"quick": 200, "thorough": 5000}
N_SIM = {"quick": 16, "thorough": 400}
REQUIRE = {"scale:script_of_more_than_4096_ticks": 1, "kill_individual": 500, "kill_pool_level": 100, "ticks_with_more_than_8_pool_level_kills": 10, "quiet_pool_memory_updates_without_exit": 500000, "suspend_accepted": 200, "assignment_after_suspension": 50,
           "sim_kill_ticks_judged": 50, "sim_runs": 50, "ticks_with_empty_pool": 100}


def cases(tier, seed, shard, nshards):
    rng = rng_for(ID, seed, shard)
    for _q in range(2 if tier == "quick" else 12):
        # quiet pool, long scans: tens of thousands of incremental memory updates without any exit
        yield _exec.quiet_scan_case(rng)
    for _m in range(2 if tier == "quick" else 40):
        # many containers start in one tick and overload one overcommitted pool: 9 .. 60 pool-level kills in one tick
        yield _exec.mass_start_case(rng)
    if tier == "thorough" or shard < 3:
        for _b in range(1 if tier == "quick" else 2):
            yield _exec.busy_case(rng, 4500 if tier == "quick" else 9000, growing=True, p_suspend=0.1)
    for i in range(max(12, N_MIX[tier] // 8)):
        # batches that ask for more RAM than is free without overcommit, half of them flagged force_run: refused -
        # otherwise the pool is over-allocated and containers inside their allocation get killed
        yield _exec.mix_case(rng, 3 * 10 ** 5 + i, steps=60, p_bad=0.2, bad_kinds=["oversell-ram"], p_suspend=0.2,
                             mem_heavy=True, p_unready=0.0, pools=rng.choice([1, 2]), npipes=rng.randint(4, 10), overcommit=False)
    for i in range(N_MIX[tier]):
        kw = dict(steps=rng.choice([40, 80, 160]), p_bad=0.0, integer_sizes=rng.random() < 0.5,
                  p_suspend=rng.choice([0.2, 0.6, 1.0]), mem_heavy=True, p_unready=0.0,
                  overcommit=rng.random() < 0.6, small_ram=rng.random() < 0.5, npipes=rng.randint(3, 12))
        if (tier == "thorough" and i % 1200 == 0) or (tier == "quick" and i == 7 and shard < 6):
            # float drift / long history: > 10,000 memory updates per pool
            kw.update(steps=9000 if tier == "thorough" else 5000, npipes=1200, integer_sizes=False, drain=3000, pools=rng.choice([1, 2]))
        yield _exec.mix_case(rng, i, **kw)
    for i in range(N_SIM[tier]):
        yield _sim.random_sim_case(rng, small=True, algos=("priority", "priority", "overbook", "overbook", "naive", "priority-pool", "vrandom", "vrandom"),
                                   mem_levels=[0.05, 0.15, 0.3, 0.6, 0.9])
    if tier == "thorough" and shard < 4:
        yield _sim.regression_case(shard)
    # scale cases: large in one dimension (one per shard for the first shards; all of them, twice, in the thorough tier)
    _kinds = ["many-small", "storm"]
    for _j, _kd in enumerate(_kinds * (1 if tier == "quick" else 2)):
        if tier == "thorough" or _j == shard:
            _k, _, _a = _kd.partition(":")
            yield _sim.scale_case(rng, _k, algo=_a or None)
    if tier == "thorough":
        for _k in range(2):
            yield _sim.long_sim_case(rng, algos=("priority", "overbook", "vrandom"))


def run_case(case, mon):
    if case["kind"] == "sim":
        _sim.run_sim_case(case, mon, ID)
        return
    w, mine = _exec.run_exec_case(case, mon, ID, driver=_exec.mix_driver(case), max_steps=case.get("driver", {}).get("steps", 60))
    if case.get("_quiet_scan") and not mine and w.ended is None:
        mon.count("quiet_pool_memory_updates_without_exit", case["_quiet_scan"])
    # suspension followed by a new start in the same pool
    sus_pool = set()
    n = 0
    for mc in w.containers:
        if mc.status in ("suspended", "suspending"):
            sus_pool.add((mc.pool, mc.born))
    for mc in w.containers:
        if any(p == mc.pool and b < mc.born for p, b in sus_pool):
            n += 1
    mon.count("assignment_after_suspension", n)
    if w.events.get("container_failed", 0) + w.events.get("container_succeeded", 0) + w.events.get("suspend_accepted", 0):
        mon.hit({"kills_individual": w.events.get("kill_individual", 0), "kills_pool": w.events.get("kill_pool_level", 0),
                 "suspensions": w.events.get("suspend_accepted", 0), "trace_tail": w.trace[-3:]})
