"""C14 - trace files round-trip: what is written is what is read, for any pipeline DAG.

UNIT on the CSV writer / reader pair: generated pipelines (multi-parent, multi-root DAGs,
all seven scaling laws, integers / decimals / 1e-9 / 1e21 / 2^53 / 0 / 0.0, memory unset vs
explicit 0, several pipelines per arrival) are written through WorkloadTraceGenerator +
CSVWorkloadWriter and read back through CSVWorkloadReader; the pipelines are compared
structurally.  Reader -> writer: a writer-format file is read and written again; every row
must be reproduced apart from the arrival column.  Malformed files (one broken rule per file)
must raise instead of loading."""
import copy
import io

from ..core import rng_for
from .. import gen
from ..model import LAWS

ID = "C14"
LEVEL = "exploration"
ANCHORS = ["eudoxia/workload/csv_io.py", "eudoxia/workload/pipeline.py", "eudoxia/utils/dag.py"]
RULE = ("cases = generated workloads (random DAGs up to 12 operators with multi-parent operators and several roots, odd numerics, "
        "several pipelines per tick) written and read back, re-written, and malformed variants (7 classes x positions); "
        "non-trivial = a file with >= 1 pipeline compared field by field, or a malformed file judged; distinct = distinct files")
ASSUMPTIONS = ["values are compared as floats after parsing (the file holds repr() texts)",
               "arrival column after read->write is excluded here (its tick mapping is C13)"]
NSHARDS = {"quick": 16, "thorough": 16}
N = {"quick": 120, "thorough": 25000}
REQUIRE = {"second_pass_through_one_reader": 100, "pipelines_roundtripped": 5000, "multi_parent_operators": 2000, "multi_root_pipelines": 500, "memory_zero_values": 300,
           "memory_unset_values": 2000, "rewrite_rows_compared": 20000, "malformed:refused": 600}
for _c in ("missing-priority", "missing-arrival", "later-priority", "later-arrival", "unknown-priority", "unknown-law", "undefined-parent"):
    REQUIRE["malformed_class:" + _c] = 40

VALUES = [0, 0.0, 1, 3, 0.5, 0.1, 1e-9, 1e21, 2 ** 53, 123456.789, 1 / 3, 55, 37.5, 2.5e-5]


def odd_id(rng, j):
    """Pipeline identifiers are free text: mostly plain, sometimes with characters a CSV file has to quote, non-ASCII
    letters, digits only, or very long (always unique through the running number)."""
    r = rng.random()
    if r < 0.75:
        return f"x{j}"
    return rng.choice(["job, nightly #{}", 'say "hi" {}', "größe-{}-日本", "{}", "0{}", " padded {} ", "x" * 300 + "{}",
                       "a;b;{}", "tab\there{}", "-{}", "1e{}", "None{}", "p{}'"]).format(j)


def rand_pipeline(rng, pid):
    n = rng.choice([1, 1, 2, 3, 4, 6, 9, 12])
    parents = gen.random_dag(rng, n)
    ops = []
    for k in range(n):
        memcls = rng.choice(["none", "none", "zero", "val"])
        mem = None if memcls == "none" else (rng.choice([0, 0.0]) if memcls == "zero" else rng.choice(VALUES[2:]))
        ops.append({"parents": parents[k], "segs": [{"cpu": rng.choice(VALUES), "law": rng.choice(LAWS), "mem": mem,
                                                     "read": rng.choice(VALUES)}]})
    return {"pid": pid, "prio": rng.choice(gen.PRIOS), "ops": ops}


def hash_twins_case(rng):
    """Rows that differ in one number only, where the two numbers have the same Python hash (floats hash modulo
    2**61 - 1: v and v * 2**61; hash(None) is a fixed number that is also a float): nothing may be keyed by hash."""
    nh = float(hash(None) % (2 ** 61 - 1))
    twins = [(1.0, 2.0 ** 61), (0.5, 2.0 ** 60), (3.0, 3.0 * 2.0 ** 61), (37.5, 37.5 * 2.0 ** 61)]
    arrivals = {}
    j = 0
    for a, b in twins:
        for field in ("cpu", "read", "mem"):
            ops = []
            for v in (a, b, a):
                seg = {"cpu": 2.0, "law": "sqrt", "mem": 4.0, "read": 8.0}
                seg[field] = v
                ops.append({"parents": [], "segs": [seg]})
            arrivals.setdefault(str(j), []).append({"pid": f"tw{j}", "prio": rng.choice(gen.PRIOS), "ops": ops})
            j += 1
    ops = [{"parents": [], "segs": [{"cpu": 2.0, "law": "const", "mem": m, "read": 8.0}]} for m in (None, nh, None, 0.0, nh)]
    arrivals.setdefault(str(j), []).append({"pid": "none-twin", "prio": "QUERY", "ops": ops})
    return {"kind": "roundtrip", "tps": 10, "arrivals": arrivals, "ticks": j + 3, "_hash_twins": True}


def near_twins_case(rng):
    """Rows of ONE file whose numbers agree to 6..15 significant digits and differ beyond (adjacent floats, a relative
    1e-7 .. 1e-15 apart, large magnitudes with different fractions): every row has to come back with its own values -
    nothing may be keyed, cached or de-duplicated by a rounded or formatted form of a number."""
    import math
    arrivals = {}
    j = 0
    bases = [1234567.25, 0.1234567891, 40.00001, 37.5, 1e-3, 9.999999, 2.0 ** 40 + 0.5, rng.uniform(0.1, 100.0), rng.uniform(1e3, 1e9)]
    for b in bases:
        variants = [b, math.nextafter(b, math.inf), b * (1 + 1e-7), b * (1 + 1e-9), b * (1 + 1e-12), b + 0.5 if b > 1e6 else b * (1 + 1e-15), b]
        for field in ("cpu", "read", "mem"):
            ops = []
            for v in variants:
                seg = {"cpu": 2.0, "law": rng.choice(["sqrt", "const"]), "mem": 4.0 if field != "mem" else None, "read": 8.0}
                seg[field] = v
                ops.append({"parents": [], "segs": [seg]})
            # the same near-twins again in another pipeline of the same file (cache spanning pipelines)
            arrivals.setdefault(str(j), []).append({"pid": f"nt{j}", "prio": rng.choice(gen.PRIOS), "ops": ops})
            arrivals.setdefault(str(j + 1), []).append({"pid": f"nu{j}", "prio": rng.choice(gen.PRIOS), "ops": list(reversed(copy.deepcopy(ops)))})
            j += 2
    return {"kind": "roundtrip", "tps": 10, "arrivals": arrivals, "ticks": j + 3, "_near_twins": True}


def big_file_case(rng, npipes):
    arrivals = {}
    for j in range(npipes):
        t = j // 3
        sp = None
        n = rng.choice([1, 2, 3]) if rng.random() < 0.97 else rng.choice([40, 80])
        if rng.random() < 0.004:
            nn = rng.choice([70, 90, 150])
            par = gen.random_dag(rng, nn, rng.choice(["random", "multi_root", "layers", "random"]))
            sp = {"pid": f"dag{j}", "prio": rng.choice(gen.PRIOS), "ops": [
                {"parents": par[k], "segs": [{"cpu": float(k), "law": rng.choice(LAWS), "mem": None, "read": 0.5}]} for k in range(nn)]}
        elif n >= 40:
            # wide fan-in: one sink with dozens of parents
            ops = [{"parents": [], "segs": [{"cpu": 1, "law": "const", "mem": None, "read": 1}]} for _ in range(n - 1)]
            ops.append({"parents": list(range(n - 1)), "segs": [{"cpu": 2, "law": "sqrt", "mem": 0, "read": 0.5}]})
            sp = {"pid": "wide-" + "x" * rng.choice([1, 60]) + str(j), "prio": "BATCH_PIPELINE", "ops": ops}
        else:
            sp = rand_pipeline(rng, f"big{j}")
        arrivals.setdefault(str(t), []).append(sp)
    return {"kind": "roundtrip", "tps": rng.choice([1, 10, 1000]), "arrivals": arrivals, "ticks": npipes // 3 + 3,
            "malform": [(rng.choice(MALFORM_KINDS), rng.random()) for _ in range(3)], "_big": True}


def cases(tier, seed, shard, nshards):
    rng = rng_for(ID, seed, shard)
    yield hash_twins_case(rng)
    yield near_twins_case(rng)
    if tier == "thorough" or shard < 3:
        yield big_file_case(rng, 5000 if tier == "quick" else 20000)
    for i in range(N[tier]):
        tps = rng.choice([1, 2, 10, 100, 1000])
        arrivals = {}
        t = 0
        npipes = rng.choice([1, 3, 8, 20])
        j = 0
        while j < npipes:
            t += rng.choice([0, 1, 1, 5, 40])
            for _ in range(rng.choice([1, 1, 2, 4])):
                arrivals.setdefault(str(t), []).append(rand_pipeline(rng, odd_id(rng, j)))
                j += 1
        yield {"kind": "roundtrip", "tps": tps, "arrivals": arrivals, "ticks": t + 2,
               "malform": [(rng.choice(MALFORM_KINDS), rng.random()) for _ in range(6)]}


MALFORM_KINDS = ["missing-priority", "missing-arrival", "later-priority", "later-arrival", "unknown-priority", "unknown-law",
                 "undefined-parent"]


def describe(p):
    keys = list(p.values.node_lookup.values())
    pos = {id(o): i for i, o in enumerate(keys)}
    ops = []
    for o in keys:
        s = o.get_segments()
        assert len(s) == 1
        s = s[0]
        ops.append((sorted(pos[id(q)] for q in o.parents), float(s.baseline_cpu_seconds), s.scaling_func.__name__,
                    None if s.memory_gb is None else float(s.memory_gb), float(s.storage_read_gb)))
    return (p.priority.name, ops)


def run_case(case, mon):
    import csv
    from ..simworld import ScriptWorkload
    from eudoxia.workload.csv_io import CSVWorkloadReader, CSVWorkloadWriter, WorkloadTraceGenerator
    tps = case["tps"]
    src = ScriptWorkload(gen.strip(case["arrivals"]))
    originals = []   # (tick, pipeline) in delivery order
    for tick in sorted(src.by_tick):
        for p in src.by_tick[tick]:
            originals.append((tick, p))
    buf = io.StringIO()
    w = CSVWorkloadWriter(buf)
    tg = WorkloadTraceGenerator(workload=src, ticks_per_second=tps, duration_secs=case["ticks"] / tps)
    for row in tg.generate_rows():
        w.write_row(row)
    text1 = buf.getvalue()
    # ---- write -> read.  Every other case reads the file twice through ONE reader object: a first pass that is
    # abandoned part-way (a run shorter than the trace), the file rewound, then the pass that is judged
    try:
        fh = io.StringIO(text1)
        reader = CSVWorkloadReader(fh)
        if len(originals) >= 3 and len(text1) % 2 == 0:
            it = reader.batch_by_pipeline()
            for _ in range(max(1, len(originals) // 2)):
                next(it, None)
            fh.seek(0)
            mon.count("second_pass_through_one_reader")
        back = list(reader.batch_by_pipeline())
    except Exception as e:
        mon.fail("written-trace-refused", f"the reader refuses the trace the writer just produced: {type(e).__name__}: {e}")
        return
    if len(back) != len(originals):
        mon.fail("count", f"wrote {len(originals)} pipelines, read {len(back)}")
        return
    tl = 1.0 / tps
    for i, ((tick, p), pa) in enumerate(zip(originals, back)):
        mon.count("pipelines_roundtripped")
        a, b = describe(p), describe(pa.pipeline)
        if a != b:
            mon.fail("structure", f"pipeline {i}: written {a}, read back {b}")
        if pa.arrival_seconds != tick * tl:
            mon.fail("arrival-value", f"pipeline {i}: written arrival {tick * tl!r}, read {pa.arrival_seconds!r}")
        for o in a[1]:
            if len(o[0]) > 1:
                mon.count("multi_parent_operators")
            if o[3] is None:
                mon.count("memory_unset_values")
            elif o[3] == 0:
                mon.count("memory_zero_values")
        if sum(1 for o in a[1] if not o[0]) > 1:
            mon.count("multi_root_pipelines")
    # ---- read -> write again: every row but the arrival column is reproduced
    buf2 = io.StringIO()
    w2 = CSVWorkloadWriter(buf2)
    try:
        wl = CSVWorkloadReader(io.StringIO(text1)).get_workload(tps)
        tg2 = WorkloadTraceGenerator(workload=wl, ticks_per_second=tps, duration_secs=(case["ticks"] + 3) / tps)
        for row in tg2.generate_rows():
            w2.write_row(row)
    except Exception as e:
        mon.fail("rewrite-raised", f"read -> write of a writer-format trace raised {type(e).__name__}: {e}")
        return
    r1 = list(csv.DictReader(io.StringIO(text1)))
    r2 = list(csv.DictReader(io.StringIO(buf2.getvalue())))
    if len(r1) != len(r2):
        mon.fail("rewrite-rows", f"{len(r1)} rows written first, {len(r2)} after read->write")
    else:
        for i, (a, b) in enumerate(zip(r1, r2)):
            mon.count("rewrite_rows_compared")
            for col in a:
                if col == "arrival_seconds":
                    if bool(a[col].strip()) != bool(b[col].strip()):
                        mon.fail("rewrite-arrival-presence", f"row {i}: arrival cell presence changed")
                    continue
                x, y = a[col], b[col]
                same = x == y
                if not same and col in ("baseline_cpu_seconds", "memory_gb", "storage_read_gb") and x and y:
                    same = float(x) == float(y)
                if not same:
                    mon.fail("rewrite-cell", f"row {i} column {col}: '{x}' became '{y}'")
                    break
    # ---- malformed variants
    lines = text1.splitlines()
    rows = [l.split(",") for l in lines]
    hdr = rows[0]
    col = {name: i for i, name in enumerate(hdr)}
    first_rows = [i for i in range(1, len(rows)) if rows[i][col["arrival_seconds"]] != ""]
    later_rows = [i for i in range(1, len(rows)) if rows[i][col["arrival_seconds"]] == ""]
    for kind, u in case.get("malform", []):
        rr = [list(r) for r in rows]
        if kind in ("later-priority", "later-arrival") and not later_rows:
            continue
        fi = first_rows[int(u * len(first_rows)) % len(first_rows)]
        li = later_rows[int(u * len(later_rows)) % len(later_rows)] if later_rows else None
        if kind == "missing-priority":
            rr[fi][col["priority"]] = ""
        elif kind == "missing-arrival":
            rr[fi][col["arrival_seconds"]] = ""
            # the row then looks like a later row of the previous pipeline unless ids differ - ids do differ
        elif kind == "later-priority":
            rr[li][col["priority"]] = "BATCH_PIPELINE"
        elif kind == "later-arrival":
            rr[li][col["arrival_seconds"]] = rr[fi][col["arrival_seconds"]] if rr[fi][col["arrival_seconds"]] else "1.0"
        elif kind == "unknown-priority":
            rr[fi][col["priority"]] = "URGENT"
        elif kind == "unknown-law":
            rr[fi][col["cpu_scaling"]] = "cubic"
        elif kind == "undefined-parent":
            rr[fi][col["parents"]] = "op99"
        bad_text = "\n".join(",".join(r) for r in rr) + "\n"
        broken_pid = rr[fi if kind not in ("later-priority", "later-arrival") else li][col["pipeline_id"]]
        mon.count("malformed_class:" + kind)
        got_ids = []
        try:
            for pa in CSVWorkloadReader(io.StringIO(bad_text)).batch_by_arrival():
                got_ids.extend(x.pipeline.pipeline_id for x in pa)
            mon.fail("malformed-accepted", f"file with broken rule '{kind}' (pipeline {broken_pid}) loaded without error", rule=kind)
        except Exception as e:
            mon.count("malformed:refused")
            if broken_pid in got_ids:
                mon.fail("malformed-yielded", f"pipeline {broken_pid} of a file breaking '{kind}' was yielded before the error", rule=kind)
    mon.hit({"tps": tps, "pipelines": len(originals), "rows": len(r1), "first_rows": lines[1:4]})
