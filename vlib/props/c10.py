"""C10 - suspension only between operators, lasts RAM/20 s, returns work intact.

Fault enumeration: for every generated container scenario a suspension request is injected
at *every* tick of the container's life (and one tick beyond its end); model M6 decides
whether the request is admissible (only in the scheduling phase right after a non-final
operator completed), how long the write-out lasts (max(1, floor(ram/20*tps)) ticks,
counting the tick that carries the command), that the container makes no progress and
keeps its allocation meanwhile, that exactly its allocation is freed at the end, that
finished operators stay completed and unfinished ones return to pending - and the returned
operators are then assigned again and run to the end.  Random scripts add concurrency."""
import copy

from ..core import rng_for
from .. import gen, execgen
from . import _exec

ID = "C10"
LEVEL = "fault_enumeration"
ANCHORS = ["eudoxia/executor/container.py", "eudoxia/executor/resource_pool.py", "eudoxia/workload/runtime_status.py"]
RULE = ("scenario = one container (1..5 operators, allocation 0.01 GB .. whole pool, tick rates incl. those where the write-out "
        "rounds to 0 or 1 tick) optionally next to concurrent containers; cases = that scenario with a suspension injected at "
        "tick i for every i in 1..life+1 (exhaustive per scenario), plus suspensions of unknown/finished/foreign containers, "
        "plus random concurrent scripts; non-trivial = the request was judged (accepted or refused) against the model; "
        "distinct = distinct (scenario, injection tick) pairs")
ASSUMPTIONS = [
    "model M6 written from the property statement; write-out duration within float rounding of a tick boundary accepted either way",
    "after a refused request the case ends",
]
EXHAUSTIVE = {"quick": ["suspension injection point: every tick of each generated container's life"],
              "thorough": ["suspension injection point: every tick of each generated container's life"]}
NSHARDS = {"quick": 16, "thorough": 16}
N_SCEN = {"quick": 45, "thorough": 4500}
N_MIX = {"quick": 60, "thorough": 6000}
REQUIRE = {"rejected:request-for-resources-of-a-container-in-its-last-write-out-tick": 30, "scale:script_of_more_than_4096_ticks": 1, "inject:accepted": 300, "inject:refused": 1000, "suspend_one_tick": 50, "suspend_multi_tick": 50,
           "suspension_finished": 300, "resumed_and_finished": 100, "rejected:suspend-not-running": 20,
           "scenarios_fully_enumerated": 100}


def scenario(rng, idx):
    tps = rng.choice([1, 2, 3, 5, 7, 10, 20, 60, 100, 1000]) if rng.random() < 0.75 else rng.choice([64, 128, 4096, 10000, 44100, 100000])
    pool_ram = rng.choice([0.25, 1, 4, 16, 64, 256, 2.75, 30.7])
    pool_cpu = rng.choice([2, 4, 10, 64])
    nops = rng.choice([1, 2, 2, 3, 4, 5])
    cpus = rng.choice([1, 2, pool_cpu])
    # allocation from fractions of a GB to the whole pool; choose so that write-out is 0 / 1 / few / many ticks
    want = rng.choice(["zero", "one", "few", "many", "whole"])
    if want == "zero":
        ram = min(pool_ram, 20.0 / tps * rng.uniform(0.05, 0.9))
    elif want == "one":
        ram = min(pool_ram, 20.0 / tps * rng.uniform(1.05, 1.9))
    elif want == "few":
        ram = min(pool_ram, 20.0 / tps * rng.uniform(2.1, 6.9))
    elif want == "many":
        ram = min(pool_ram, 20.0 / tps * rng.uniform(10, 40))
    else:
        ram = pool_ram
    ram = max(ram, 0.01)
    ops = []
    for k in range(nops):
        nseg = rng.choice([1, 1, 2])
        segs = [gen.make_seg(rng, tps, cpus, "safe", mem_ref=ram * rng.choice([0.1, 0.5]), maxn=4) for _ in range(nseg)]
        for s in segs:
            if s["mem"] is None and s["read"] > ram * 0.9:
                s["mem"] = ram * 0.5
            if s["mem"] is not None and s["mem"] > ram:
                s["mem"] = ram * 0.5
        ops.append({"parents": [k - 1] if k else [], "segs": segs})
    pipes = [{"pid": "p0", "prio": rng.choice(gen.PRIOS), "ops": ops}]
    asg = [{"pool": 0, "cpu": cpus, "ram": ram, "ops": [[0, i] for i in range(nops)]}]
    # optional neighbour container (concurrent activity)
    if rng.random() < 0.4 and pool_cpu - cpus >= 1 and pool_ram - ram > 0.01:
        nb = gen.simple_pipeline(rng, "p1", tps, nops=rng.choice([1, 2, 3]), shape="chain", mode="safe", cpus_hint=1,
                                 mem_ref=(pool_ram - ram) * 0.3, maxn=4)
        for o in nb["ops"]:
            for s in o["segs"]:
                if s["mem"] is None and s["read"] > (pool_ram - ram) * 0.5:
                    s["mem"] = (pool_ram - ram) * 0.2
        pipes.append(nb)
        asg.append({"pool": 0, "cpu": 1, "ram": (pool_ram - ram) * 0.6, "ops": [[1, i] for i in range(len(nb["ops"]))]})
    return {"kind": "scenario",
            "world": {"pools": 1, "cpus": pool_cpu, "ram": pool_ram, "tps": tps, "multi": True, "overcommit": False},
            "pipelines": pipes, "steps": [{"sus": [], "asg": asg}], "drain": 0, "_writeout": want}


def cases(tier, seed, shard, nshards):
    rng = rng_for(ID, seed, shard)
    if tier == "thorough" or shard < 3:
        for _b in range(1 if tier == "quick" else 2):
            yield _exec.busy_case(rng, 4500 if tier == "quick" else 9000, p_suspend=0.25)
    for i in range(N_SCEN[tier]):
        yield scenario(rng, i)
    # long history: thousands of steps with suspensions in one executor
    for i in range((1 if shard < 6 else 0) if tier == "quick" else 6):
        yield _exec.mix_case(rng, 10 ** 6 + i, steps=5000 if tier == "quick" else 9000, p_bad=0.0, p_suspend=0.7, mem_heavy=False,
                             p_unready=0.0, multi=True, tps=rng.choice([20, 100, 1000]), maxn=4, nops=rng.choice([3, 4, 5]),
                             npipes=1200, drain=2000, pools=1)
    for i in range(N_MIX[tier] // 3):
        # requests for what a container in its last write-out tick is about to release (must still be refused)
        yield _exec.mix_case(rng, 5 * 10 ** 5 + i, steps=60, p_bad=0.5, bad_kinds=["oversell-releasing"], p_suspend=1.0,
                             mem_heavy=False, p_unready=0.0, multi=True, tps=rng.choice([1, 5, 20, 100]), maxn=3,
                             nops=rng.choice([2, 3, 4]), npipes=rng.randint(4, 10), pools=rng.choice([1, 2]))
    for i in range(N_MIX[tier]):
        yield _exec.mix_case(rng, i, steps=rng.choice([40, 80]), p_bad=rng.choice([0.02, 0.05]),
                             bad_kinds=["suspend-mid", "suspend-unknown", "suspend-wrong-pool", "suspend-mid", "oversell-releasing",
                                        "oversell-releasing"],
                             p_suspend=rng.choice([0.5, 1.0]), mem_heavy=False, p_unready=0.0, multi=True,
                             tps=rng.choice([1, 2, 5, 10, 20, 100, 1000]), maxn=4, nops=rng.choice([2, 3, 4, 5]),
                             npipes=rng.randint(2, 8))


class ResumeDriver:
    """After the scripted prefix: once the suspended operators are pending again, assign
    them to a new container of the same size and let everything run to the end."""

    def __init__(self, prefix, resize=False):
        self.prefix = prefix
        self.resumed = False
        self.resize = resize        # resume with another CPU count (a scheduler may resize on resume)
        self.resized = False

    def __call__(self, w, i):
        if i < len(self.prefix):
            return copy.deepcopy(self.prefix[i])
        if i > len(self.prefix) + 400:
            return None
        mc = w.containers[0] if w.containers else None
        if mc is not None and mc.status == "suspended" and not self.resumed:
            keys = [k for k in mc.keys if w.mstate[k] == "pending"]
            if keys and w.free_cpu[0] >= mc.cpu and w.free_ram[0] >= mc.ram:
                self.resumed = True
                cpu = mc.cpu
                if self.resize and w.free_cpu[0] >= mc.cpu + 1:
                    cpu, self.resized = mc.cpu + 1, True
                return {"sus": [], "asg": [{"pool": 0, "cpu": cpu, "ram": mc.ram, "ops": [list(k) for k in keys]}]}
        if not any(w.active[k] or w.suspending[k] for k in range(w.npools)):
            return None
        return {"sus": [], "asg": []}


def run_injection(base, i, target, mon, life):
    from ..execworld import World
    case = copy.deepcopy(base)
    case["kind"] = "inject"
    case["_inject_at"] = i
    prefix = [case["steps"][0]] + [{"sus": [], "asg": []} for _ in range(i - 1)] + \
             [{"sus": [{"pool": 0, "c": target}], "asg": []}]
    case["steps"] = None
    case["_adaptive_pending"] = True
    drv = ResumeDriver(prefix, resize=(i % 2 == 1))
    with mon.subcase(case):
        w, mine = _exec.run_exec_case(case, mon, ID, driver=drv, max_steps=len(prefix) + 500)
        if w.ended and w.ended.startswith("rejected:suspend"):
            mon.count("inject:refused")
            mon.hit({"inject_at": i, "life": life, "verdict": w.ended})
        elif w.events.get("suspend_accepted"):
            mon.count("inject:accepted")
            mc = w.containers[0]
            if mc.sus_total and mc.sus_total > 1:
                mon.count("suspend_multi_tick")
            if drv.resumed and len(w.containers) > 1 and w.containers[-1].status == "ok":
                mon.count("resumed_and_finished")
                if drv.resized:
                    mon.count("resumed_with_another_cpu_count_and_finished")
            mon.hit({"inject_at": i, "life": life, "verdict": "accepted", "writeout_ticks": mc.sus_total,
                     "resumed": drv.resumed, "trace_tail": w.trace[-3:]})
        else:
            mon.count("inject:other:" + str(w.ended))


def run_case(case, mon):
    from ..execworld import World
    if case["kind"] == "mix":
        w, mine = _exec.run_exec_case(case, mon, ID, driver=_exec.mix_driver(case), max_steps=case.get("driver", {}).get("steps", 60))
        if w.events.get("suspend_accepted") or (w.ended or "").startswith("rejected:suspend"):
            mon.hit({"suspensions": w.events.get("suspend_accepted", 0), "ended": w.ended})
        return
    if case["kind"] == "inject":   # replay of one injection
        w, mine = _exec.run_exec_case(case, mon, ID)
        mon.hit({"replayed": True})
        return
    # scenario: scout run without injection to learn the life length, then every tick
    scout = copy.deepcopy(case)
    scout["drain"] = 5000
    w = World(scout)
    w.run()
    if not w.containers or w.problems or w.n_amb:
        mon.count("scenario_skipped")
        return
    life = w.containers[0].j
    if w.containers[0].status != "ok":
        mon.count("scenario_target_failed")
    if life > 120:
        mon.count("scenario_too_long")
        return
    for i in range(1, life + 2):
        run_injection(case, i, 0, mon, life)
    # requests that must always be refused: unknown id, a container of another pool id, finished container
    for ref, at in (("nonexistent", 1), (10 ** 6, 2)):
        c2 = copy.deepcopy(case)
        c2["kind"] = "inject"
        c2["steps"] = [c2["steps"][0]] + [{"sus": [], "asg": []} for _ in range(at - 1)] + [{"sus": [{"pool": 0, "c": ref}], "asg": []}]
        with mon.subcase(c2):
            w2, mine = _exec.run_exec_case(c2, mon, ID)
            if (w2.ended or "").startswith("rejected:suspend"):
                mon.count("inject:refused")
                mon.hit({"unknown_container": str(ref), "verdict": w2.ended})
    mon.count("scenarios_fully_enumerated")
    mon.count("writeout_class:" + case.get("_writeout", "?"))
    mon.hit({"life": life, "injections": life + 1})
