"""C15 - the workload generator emits well-formed pipelines that follow its parameters.

UNIT on WorkloadGenerator.run_one_tick stepped tick by tick over seeds x parameter sets.
Exact structural clauses per arrival event (batch size, fresh ids, query = 1 operator, other
= chain of >= 1 operators, one segment per operator taken from the documented prototype
table, first operator = the I/O-heavy prototype, classes with probability 0 / 1, events at
least one tick apart).  Distributional clauses with fixed, seed-derived samples and bounds at
>= 6 sigma of the exact binomial / normal spread: class frequencies, mean operator count,
mean gap, and the shift of the prototype mix of later operators with cpu_io_ratio."""
import math

from ..core import rng_for
from .. import gen

ID = "C15"
LEVEL = "exploration"
ANCHORS = ["eudoxia/workload/workload.py", "eudoxia/workload/pipeline.py", "eudoxia/simulator.py"]
RULE = ("cases = (seed, parameter set) pairs: probability triples incl. zeros and ones, num_pipelines 1..20, num_operators 1..30, "
        "waiting mean from below one tick to minutes, cpu_io_ratio in {0,.25,.5,.75,1}, tick rates 1..100000; paired cases compare "
        "ratio 0 vs ratio 1 on 2,000+ later operators each; non-trivial = a generator that produced >= 1 arrival event; "
        "distinct = distinct (seed, parameters)")
ASSUMPTIONS = [
    "prototype table taken from the generator's documentation (7 prototypes + the query prototype)",
    "distributional bounds: |freq - p| <= 6*sqrt(p(1-p)/N) + 1/N; |mean ops - n| <= 1 + 6*(n/4)/sqrt(N); mean gap within 1 tick + 1% + 6*sigma/sqrt(N) when the mean spans >= 50 ticks; rank shift >= 0.5 between cpu_io_ratio 0 and 1 (the documented normal draw predicts ~1.7)",
    "false-alarm probability below 1e-8 per check; samples are seed-derived, so a given VERIF_SEED always sees the same draws",
]
NSHARDS = {"quick": 16, "thorough": 16}
N = {"quick": 40, "thorough": 1200}
REQUIRE = {"events": 20000, "pipelines:QUERY": 5000, "pipelines:INTERACTIVE": 5000, "pipelines:BATCH_PIPELINE": 5000,
           "later_operators_ratio0": 20000, "later_operators_ratio1": 20000, "ratio_shift_checks": 16, "zero_prob_class_checks": 100,
           "gap_mean_checks": 50, "gap_bound_checks": 20000, "class_frequency_checks": 300, "mean_operator_checks": 100}

PROTO = {(float(c), l, float(r)): i for i, (c, l, r) in enumerate(gen.PROTOTYPES)}
QPROTO = (float(gen.QUERY_PROTOTYPE[0]), gen.QUERY_PROTOTYPE[1], float(gen.QUERY_PROTOTYPE[2]))
LAW_BY_FUNC = None


def cases(tier, seed, shard, nshards):
    rng = rng_for(ID, seed, shard)
    for i in range(N[tier]):
        tps = gen.pick_tps(rng)
        iq = rng.choice(gen.PROB_TRIPLES)
        wmean_ticks = rng.choice([0.3, 1, 2, 5, 50, 200, 1000])
        yield {"kind": "gen", "seed": rng.randint(0, 2 ** 31), "tps": tps,
               "p": {"waiting_seconds_mean": wmean_ticks / tps, "num_pipelines": rng.choice([1, 2, 4, 7, 20]),
                     "num_operators": rng.choice([1, 2, 5, 12, 30]), "cpu_io_ratio": rng.choice([0, 0.25, 0.5, 0.75, 1]),
                     "interactive_prob": iq[0], "query_prob": iq[1], "batch_prob": iq[2]},
               "events": rng.choice([60, 150, 300])}
    if tier == "thorough" or shard < 3:
        # one generator stepped for a long time: > 10,000 events, > 20,000 pipelines, ids far beyond p9999
        yield {"kind": "gen", "seed": rng.randint(0, 2 ** 31), "tps": rng.choice([10, 100]),
               "p": {"waiting_seconds_mean": 0.3, "num_pipelines": 2, "num_operators": 2, "cpu_io_ratio": 0.5,
                     "interactive_prob": 0.3, "query_prob": 0.3, "batch_prob": 0.4},
               "events": 12000 if tier == "quick" else 60000, "_long": True}
    for i in range(2 if tier == "quick" else 12):
        tps = rng.choice([10, 100, 1000])
        yield {"kind": "ratio", "seed": rng.randint(0, 2 ** 31), "tps": tps,
               "p": {"waiting_seconds_mean": 3 / tps, "num_pipelines": 4, "num_operators": rng.choice([5, 8]),
                     "interactive_prob": 0.5, "query_prob": 0.0, "batch_prob": 0.5}}


def seg_key(s):
    global LAW_BY_FUNC
    if LAW_BY_FUNC is None:
        from eudoxia.workload.pipeline import Segment
        LAW_BY_FUNC = {fn: name for name, fn in Segment.SCALING_FUNCS.items()}
    return (float(s.baseline_cpu_seconds), LAW_BY_FUNC.get(s.scaling_func, "?"), float(s.storage_read_gb)), s.memory_gb


def make(case, ratio=None):
    from eudoxia.workload import WorkloadGenerator
    from eudoxia.simulator import get_param_defaults
    p = get_param_defaults()
    p.update(case["p"])
    p["ticks_per_second"] = case["tps"]
    p["random_seed"] = case["seed"]
    if ratio is not None:
        p["cpu_io_ratio"] = ratio
    g = WorkloadGenerator(**p)
    # a second generator with other parameters is built *after* the observed one and stays alive next to it (a sweep
    # that creates its workloads up front); it is ticked now and then - nothing of it may show in the observed one
    q = dict(p)
    q.update({"interactive_prob": p["batch_prob"], "query_prob": p["interactive_prob"], "batch_prob": p["query_prob"],
              "num_pipelines": p["num_pipelines"] + 1, "num_operators": p["num_operators"] + 2,
              "waiting_seconds_mean": p["waiting_seconds_mean"] * 3 + 1.0 / case["tps"], "random_seed": p["random_seed"] + 17,
              "cpu_io_ratio": 1.0 - p["cpu_io_ratio"]})
    other = WorkloadGenerator(**q)
    for _ in range(5):
        other.run_one_tick()
    _NEIGHBOURS.append(other)
    del _NEIGHBOURS[:-4]
    return g, p


_NEIGHBOURS = []


def collect(g, p, max_events, max_ticks, mon, check_structure=True):
    """Step the generator; return events [(tick, pipelines)] and later-operator ranks."""
    events = []
    seen_ids = set()
    ranks = []
    t = 0
    while len(events) < max_events and t < max_ticks:
        ps = g.run_one_tick()
        if t % 7 == 3 and _NEIGHBOURS:
            _NEIGHBOURS[-1].run_one_tick()
        if ps:
            events.append((t, ps))
            if check_structure:
                if len(ps) != p["num_pipelines"]:
                    mon.fail("batch-size", f"arrival event at tick {t} delivered {len(ps)} pipelines, num_pipelines = {p['num_pipelines']}")
            for pl in ps:
                if pl.pipeline_id in seen_ids:
                    mon.fail("id-reused", f"pipeline id {pl.pipeline_id} delivered twice")
                seen_ids.add(pl.pipeline_id)
                ops = list(pl.values)
                keys = list(pl.runtime_status().operator_states.keys())
                prio = pl.priority.name
                mon.count("pipelines:" + prio)
                if prio == "QUERY":
                    if len(keys) != 1:
                        mon.fail("query-shape", f"query pipeline {pl.pipeline_id} has {len(keys)} operators")
                else:
                    if len(keys) < 1:
                        mon.fail("empty-pipeline", f"pipeline {pl.pipeline_id} has no operators")
                    for k, op in enumerate(keys):
                        want_parents = [keys[k - 1]] if k else []
                        if list(op.parents) != want_parents:
                            mon.fail("not-a-chain", f"pipeline {pl.pipeline_id}: operator {k} has parents {[keys.index(q) for q in op.parents]}")
                            break
                for k, op in enumerate(keys):
                    segs = op.get_segments()
                    if len(segs) != 1:
                        mon.fail("segment-count", f"operator {k} of {pl.pipeline_id} has {len(segs)} segments")
                        continue
                    key, mem = seg_key(segs[0])
                    if mem is not None:
                        mon.fail("prototype", f"operator {k} of {pl.pipeline_id} has fixed memory {mem}; prototypes have none")
                    if prio == "QUERY":
                        if key != QPROTO:
                            mon.fail("prototype", f"query operator uses {key}, documented query prototype is {QPROTO}")
                        continue
                    if key not in PROTO:
                        mon.fail("prototype", f"operator {k} of {pl.pipeline_id} uses {key}, not one of the documented prototypes")
                        continue
                    if k == 0:
                        if PROTO[key] != 0:
                            mon.fail("first-operator", f"first operator of {pl.pipeline_id} is prototype #{PROTO[key]} {key}, not the I/O-heavy one")
                    else:
                        ranks.append(PROTO[key])
        t += 1
    return events, ranks


def g_ticks_stepped(events, max_ticks):
    return max_ticks - 1 - events[-1][0]


def run_case(case, mon):
    if case["kind"] == "ratio":
        out = {}
        for ratio in (0.0, 1.0):
            g, p = make(case, ratio)
            ev, ranks = collect(g, p, 400, 400 * 10, mon)
            out[ratio] = ranks
            mon.count("later_operators_ratio%d" % int(ratio), len(ranks))
        if len(out[0.0]) >= 1500 and len(out[1.0]) >= 1500:
            m0 = sum(out[0.0]) / len(out[0.0])
            m1 = sum(out[1.0]) / len(out[1.0])
            mon.count("ratio_shift_checks")
            if not (m1 - m0 >= 0.5):
                mon.fail("cpu-io-ratio-no-shift", f"mean prototype rank of later operators: {m0:.3f} at cpu_io_ratio=0, {m1:.3f} at 1 "
                                                  f"(0 = most I/O-heavy .. 6 = most CPU-heavy); raising the ratio must shift the mix "
                                                  f"towards CPU-heavy prototypes", n0=len(out[0.0]), n1=len(out[1.0]))
            mon.hit({"mean_rank_ratio0": m0, "mean_rank_ratio1": m1, "n": [len(out[0.0]), len(out[1.0])]})
        return
    g, p = make(case)
    tps = case["tps"]
    wticks = int(p["waiting_seconds_mean"] * tps)
    max_ticks = min(150000 if not case.get("_long") else 2000000, (max(1, wticks) * 3 + 3) * case["events"])
    events, ranks = collect(g, p, case["events"], max_ticks, mon)
    mon.count("events", len(events))
    if not events:
        return
    if events[0][0] != 0:
        mon.count("first_event_not_at_tick0")
    # events at least one tick apart
    gaps = [b[0] - a[0] for a, b in zip(events, events[1:])]
    if any(gp < 1 for gp in gaps):
        mon.fail("events-same-tick", "two arrival events in the same tick")
    # gaps come from N(mean, mean/4) truncated to an integer: none can exceed 2.5*mean (+ rounding)
    # except with probability < 1e-9; this includes the silent stretch at the end of the stepping
    limit = 2.5 * wticks + 4
    mon.count("gap_bound_checks", len(gaps) + 1)
    worst = max(gaps) if gaps else 0
    if worst > limit:
        mon.fail("gap-too-long", f"gap of {worst} ticks between two arrival events; waiting_seconds_mean spans {wticks} ticks "
                                 f"(a gap above {limit} has probability < 1e-9)")
    if len(events) < case["events"] and g_ticks_stepped(events, max_ticks) > limit:
        mon.fail("generator-went-silent", f"no arrival event during the last {g_ticks_stepped(events, max_ticks)} ticks stepped "
                                          f"(mean gap {wticks} ticks, {len(events)} events so far)")
    pipes = [pl for _, ps in events for pl in ps]
    n = len(pipes)
    probs = {"INTERACTIVE": p["interactive_prob"], "QUERY": p["query_prob"], "BATCH_PIPELINE": p["batch_prob"]}
    for cls, pr in probs.items():
        k = sum(1 for pl in pipes if pl.priority.name == cls)
        if pr == 0:
            mon.count("zero_prob_class_checks")
            if k:
                mon.fail("zero-probability-class", f"{k} {cls} pipelines although its probability is 0")
        elif pr == 1:
            mon.count("zero_prob_class_checks")
            if k != n:
                mon.fail("certain-class-missing", f"only {k}/{n} pipelines are {cls} although its probability is 1")
        elif n >= 100:
            mon.count("class_frequency_checks")
            bound = 6 * math.sqrt(pr * (1 - pr) / n) + 1.0 / n
            if abs(k / n - pr) > bound:
                mon.fail("class-frequency", f"{cls}: {k}/{n} = {k / n:.4f}, configured {pr} (6-sigma bound {bound:.4f})")
    nonq = [pl for pl in pipes if pl.priority.name != "QUERY"]
    if len(nonq) >= 100:
        mon.count("mean_operator_checks")
        no = p["num_operators"]
        m = sum(len(pl.values) for pl in nonq) / len(nonq)
        bound = 1 + 6 * (no / 4) / math.sqrt(len(nonq))
        if abs(m - no) > bound:
            mon.fail("mean-operators", f"mean operator count {m:.3f} over {len(nonq)} pipelines, num_operators = {no} (bound {bound:.3f})")
    if wticks >= 50 and len(gaps) >= 50:
        mon.count("gap_mean_checks")
        mg = sum(gaps) / len(gaps)
        sigma = wticks / 4
        bound = 1 + 0.01 * wticks + 6 * sigma / math.sqrt(len(gaps)) + 1
        if abs(mg - wticks) > bound:
            mon.fail("mean-gap", f"mean gap {mg:.2f} ticks over {len(gaps)} gaps, waiting_seconds_mean spans {wticks} ticks (bound {bound:.2f})")
    mon.hit({"tps": tps, "events": len(events), "pipelines": n, "mean_gap": (sum(gaps) / len(gaps)) if gaps else None,
             "first": [(pl.pipeline_id, pl.priority.name, len(pl.values)) for pl in pipes[:4]]})
