"""C09 - every accepted assignment becomes exactly one container with exactly one outcome.

EXEC: adaptive scripts over 1..4 pools with simultaneous completions, kills and suspensions
and commands naming pools that do not exist.  A container ledger keyed by container id
checks: one new container per accepted assignment, one outcome per container delivered once
in its ending tick, success <=> all operators completed, failure = error + completed prefix
+ failed suffix, identity assignments = successes + failures + suspended + live.  SIM: the
same ledger under the shipped schedulers."""
from ..core import rng_for
from . import _exec, _sim

ID = "C09"
LEVEL = "exploration"
ANCHORS = ["eudoxia/executor/executor.py", "eudoxia/executor/resource_pool.py", "eudoxia/executor/container.py",
           "eudoxia/executor/assignment.py"]
RULE = ("cases = adaptive command scripts over 1..4 pools incl. unknown pool ids (-1, n, n+3, 10^6) and simulations under the "
        "shipped schedulers; non-trivial = at least one container reached an outcome or an unknown-pool command was judged; "
        "distinct = distinct recorded scripts / simulation configurations")
ASSUMPTIONS = [
    "ending ticks predicted by the independent models M3 (time/memory), M5 (kills), M6 (suspension)",
    "after a rejected command the case ends (state of pools before the rejecting one is unspecified)",
]
NSHARDS = {"quick": 16, "thorough": 16}
N_MIX = {"quick": 220, "thorough": 6000}
N_SIM = {"quick": 12, "thorough": 300}
REQUIRE = {"scale:script_of_more_than_4096_ticks": 1, "container_succeeded": 500, "container_failed": 500, "suspension_finished": 100, "rejected:unknown-pool": 10,
           "steps_with_completion_and_kill": 20, "steps_with_three_kinds_of_ending": 3, "sim_runs": 50}


def cases(tier, seed, shard, nshards):
    rng = rng_for(ID, seed, shard)
    for _m in range(2 if tier == "quick" else 40):
        # many containers start in one tick and overload one overcommitted pool: 9 .. 60 pool-level kills in one tick
        yield _exec.mass_start_case(rng)
    if tier == "thorough" or shard < 3:
        for _b in range(1 if tier == "quick" else 2):
            yield _exec.busy_case(rng, 4500 if tier == "quick" else 9000, p_suspend=0.1)
    for i in range(max(12, N_MIX[tier] // 8)):
        # commands that do not fit their pool, half of them flagged force_run: refused, never re-routed or dropped
        yield _exec.mix_case(rng, 3 * 10 ** 5 + i, steps=40, p_bad=0.2, bad_kinds=["oversell-cpu", "oversell-ram"], p_suspend=0.2,
                             mem_heavy=False, p_unready=0.0, pools=rng.choice([2, 3, 4]), npipes=rng.randint(4, 10), overcommit=False)
    for i in range(N_MIX[tier]):
        kw = dict(steps=rng.choice([40, 80, 160]), p_bad=rng.choice([0.0, 0.02, 0.04]),
                  bad_kinds=["unknown-pool", "unknown-pool", "unknown-pool", "reassign", "suspend-unknown", "suspend-wrong-pool"],
                  integer_sizes=rng.random() < 0.7, p_suspend=rng.choice([0.2, 0.6, 1.0]), mem_heavy=rng.random() < 0.6,
                  p_unready=0.0, pools=rng.choice([1, 2, 3, 4]), npipes=rng.randint(3, 14), p_assign=0.8, maxn=4)
        if (tier == "thorough" and i % 1500 == 0) or (tier == "quick" and i == 7 and shard < 6):
            kw.update(steps=9000 if tier == "thorough" else 5000, npipes=2500, p_bad=0.0, drain=3000, pools=1, maxn=2, mem_heavy=False, p_suspend=0.2)
        yield _exec.mix_case(rng, i, **kw)
    for i in range(N_SIM[tier]):
        yield _sim.random_sim_case(rng, small=True, algos=_sim.ALGOS_PLUS)
    if tier == "thorough" and shard < 4:
        yield _sim.regression_case(shard)
    # scale cases: large in one dimension (one per shard for the first shards; all of them, twice, in the thorough tier)
    _kinds = ["many-small", "storm", "many-small"]
    for _j, _kd in enumerate(_kinds * (1 if tier == "quick" else 2)):
        if tier == "thorough" or _j == shard:
            _k, _, _a = _kd.partition(":")
            yield _sim.scale_case(rng, _k, algo=_a or None)
    if tier == "thorough":
        for _k in range(2):
            yield _sim.long_sim_case(rng, algos=_sim.ALGOS_PLUS)


def run_case(case, mon):
    if case["kind"] == "sim":
        _sim.run_sim_case(case, mon, ID)
        return
    w, mine = _exec.run_exec_case(case, mon, ID, driver=_exec.mix_driver(case), max_steps=case.get("driver", {}).get("steps", 60))
    # which kinds of endings coincided in one executor tick
    by_step = {}
    for mc in w.containers:
        if mc.status in ("ok", "failed") and getattr(mc, "end_step", None) is not None:
            by_step.setdefault(mc.end_step, set()).add(mc.status)
        if mc.status in ("suspended",) and getattr(mc, "end_step", None) is not None:
            by_step.setdefault(mc.end_step, set()).add("suspended")
    for st, kinds in by_step.items():
        if {"ok", "failed"} <= kinds:
            mon.count("steps_with_completion_and_kill")
        if len(kinds) == 3:
            mon.count("steps_with_three_kinds_of_ending")
    if w.n_ok + w.n_fail or (w.ended or "").endswith("unknown-pool"):
        mon.hit({"ok": w.n_ok, "failed": w.n_fail, "suspended": w.n_susp, "ended": w.ended, "trace_tail": w.trace[-3:]})
