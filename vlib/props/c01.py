"""C01 - operators never start before their parents have completed.

UNIT: every DAG on <= 6 nodes (7 in the thorough tier) is built through the public API;
list(pipeline.values) must visit every operator exactly once, parents first (M2), twice in
a row; get_ops(..., require_parents_complete) is compared with M1 on random state vectors.
SIM: generated DAG workloads under every shipped scheduler and the starter template, both
container modes; the dependency clause is evaluated on the totally ordered transition log
at the moment of every accepted ->RUNNING (P1), and polled at both phase boundaries.
CHURN: 70,000 operators live and die in one process through the public API (guard of ->RUNNING and
the ready filter compared with the model at every step); the other cases of that process follow.
EXEC: scripts that start children before their parents (same container, other container
while the parent runs / failed / is suspended); such a start must raise and not execute."""
import random

from ..core import rng_for
from .. import gen
from . import _exec, _sim

ID = "C01"
LEVEL = "exploration"
ANCHORS = ["eudoxia/workload/runtime_status.py", "eudoxia/executor/container.py", "eudoxia/utils/dag.py",
           "eudoxia/workload/pipeline.py", "eudoxia/scheduler/priority.py", "eudoxia/scheduler/priority_pool.py",
           "eudoxia/scheduler/naive.py", "eudoxia/scheduler/overbook.py"]
RULE = ("DAG iteration: every DAG on n nodes for n <= 6 (quick) / 7 (thorough), enumerated completely; simulations: generated "
        "DAG workloads x {naive, priority, priority-pool, overbook, template} x both modes; executor scripts with dependency-"
        "violating container contents; non-trivial = a DAG with >= 1 edge, a run in which an operator with parents entered "
        "RUNNING, or a script whose inadmissible start was judged; distinct = distinct DAG ranges / configurations / scripts")
ASSUMPTIONS = [
    "the transition probe wraps PipelineRuntimeStatus.transition at class level; a bypass of that API is detected by comparing polled states with the states replayed from the log",
    "a parent completing and its child starting inside the same executor tick is admissible when the log orders them so",
]
EXHAUSTIVE = {"quick": ["DAG iteration over all 33,867 DAGs on <= 6 nodes"],
              "thorough": ["DAG iteration over all 2,131,019 DAGs on <= 7 nodes"]}
NSHARDS = {"quick": 16, "thorough": 16}
MAXN = {"quick": 6, "thorough": 7}
N_SIM = {"quick": 40, "thorough": 600}
N_MIX = {"quick": 120, "thorough": 4000}
REQUIRE = {
    "quick": {"dags_enumerated": 33867, "running_events_with_parents": 800, "rejected:dependency": 100,
              "get_ops_vectors_checked": 5000, "sim_runs": 100, "churn_operators": 2 * 70000,
              "churn_dependency_refusals": 5000, "big_dags_checked": 40},
    "thorough": {"dags_enumerated": 2131019, "running_events_with_parents": 50000, "rejected:dependency": 3000,
                 "get_ops_vectors_checked": 100000, "sim_runs": 2000, "churn_operators": 16 * 70000,
                 "churn_dependency_refusals": 40000, "big_dags_checked": 200},
}
CHUNK = 2048


CHURN_OPS = 70000


def big_dags(rng):
    """DAGs far beyond the exhaustively enumerated sizes: wide frontiers (many roots, wide fan-out, wide joins),
    deep chains, layered graphs - as parent lists in creation order."""
    out = []
    for r in (33, 40, 100, 300):
        out.append([[] for _ in range(r)] + [list(range(r))])                         # r roots, one join of r parents
    for f in (33, 64, 257):
        out.append([[]] + [[0] for _ in range(f)] + [list(range(1, f + 1))])          # fan-out f, join f
    for d in (200, 1200):
        out.append([[]] + [[i - 1] for i in range(1, d)])                             # chain
    for _ in range(4):                                                                  # layers of random width
        par, prev, k = [], [], 0
        for _layer in range(rng.randint(3, 8)):
            width = rng.choice([1, 5, 34, 70])
            this = []
            for _w in range(width):
                par.append(sorted(rng.sample(prev, rng.randint(1, min(len(prev), 40)))) if prev else [])
                this.append(k)
                k += 1
            prev = this
        out.append(par)
    for _ in range(3):                                                                  # random, many edges
        n = rng.choice([50, 120])
        out.append([sorted(rng.sample(range(k), rng.randint(0, min(k, 12)))) if k else [] for k in range(n)])
    return out


def cases(tier, seed, shard, nshards):
    rng = rng_for(ID, seed, shard)
    idx = 0
    if tier == "thorough" or 2 <= shard < 5:
        yield {"kind": "bigdags", "seed": rng.getrandbits(32)}
    if tier == "thorough" or shard < 2:
        # a long object history in this process first: everything after it runs in a "seasoned" interpreter
        yield {"kind": "churn", "ops": CHURN_OPS, "seed": rng.getrandbits(32)}
    for n in range(1, MAXN[tier] + 1):
        total = gen.count_dags(n)
        for lo in range(0, total, CHUNK):
            if idx % nshards == shard:
                yield {"kind": "dags", "n": n, "lo": lo, "hi": min(total, lo + CHUNK), "seed": rng.getrandbits(32)}
            idx += 1
    for i in range(N_SIM[tier]):
        c = _sim.random_sim_case(rng, small=True, algos=_sim.ALGOS_PLUS)
        yield c
    for i in range(N_MIX[tier]):
        yield _exec.mix_case(rng, i, steps=rng.choice([30, 60]), p_bad=0.0, p_suspend=rng.choice([0.0, 0.5]),
                             p_unready=rng.choice([0.15, 0.4]), mem_heavy=rng.random() < 0.3, maxn=4,
                             npipes=rng.randint(2, 6), nops=rng.choice([3, 4, 5, 6]))
    if tier == "thorough" and shard < 4:
        yield _sim.regression_case(shard)
    # scale cases: large in one dimension (one per shard for the first shards; all of them, twice, in the thorough tier)
    _kinds = ["crowd", "many-small", "storm"]
    for _j, _kd in enumerate(_kinds * (1 if tier == "quick" else 2)):
        if tier == "thorough" or _j == shard:
            _k, _, _a = _kd.partition(":")
            yield _sim.scale_case(rng, _k, algo=_a or None)
    if tier == "thorough":
        for _k in range(2):
            yield _sim.long_sim_case(rng, algos=_sim.ALGOS_PLUS)


def check_dag_range(case, mon):
    from .. import sut
    from eudoxia.workload.runtime_status import OperatorState
    from ..model import ALLOWED
    n, lo, hi = case["n"], case["lo"], case["hi"]
    rng = random.Random(case["seed"])
    states = list(OperatorState)
    for idx in range(lo, hi):
        parents = gen.dag_from_index(n, idx)
        p = sut.Pipeline("d", sut.Priority.BATCH_PIPELINE)
        ops = []
        for k in range(n):
            ops.append(p.new_operator([ops[i] for i in parents[k]] or None))
        for rep in range(2):
            visited = list(p.values)
            pos = {id(o): i for i, o in enumerate(visited)}
            bad = None
            if len(visited) != n or len(pos) != n or any(id(o) not in pos for o in ops):
                bad = f"iteration visited {len(visited)} nodes ({len(pos)} distinct) of {n}"
            else:
                for k in range(n):
                    for i in parents[k]:
                        if pos[id(ops[i])] > pos[id(ops[k])]:
                            bad = f"node {k} visited before its parent {i}"
            if bad:
                mon.fail("dag-iteration", f"DAG {parents} (pass {rep + 1}): {bad}", dag=parents)
                break
        mon.count("dags_enumerated")
        if any(parents[k] for k in range(n)):
            mon.count("dags_with_edges")
        # insertion order of the runtime status and the ready filter, on a random state vector
        if idx % 7 == 0 or n <= 4:
            rs = p.runtime_status()
            keys = list(rs.operator_states.keys())
            kpos = {id(o): i for i, o in enumerate(keys)}
            if len(keys) != n or len(kpos) != n or any(kpos[id(ops[i])] > kpos[id(ops[k])] for k in range(n) for i in parents[k]):
                mon.fail("status-order", f"operator_states does not list every operator once, parents first, for DAG {parents}")
            # a reachable state vector, produced through the public transition() API only (a status object may
            # keep derived bookkeeping that only transition() maintains); the expected vector is tracked here
            cur = ["pending"] * n
            for _ in range(rng.randint(0, 6 * n)):
                k = rng.randrange(n)
                nxt = [b for (a, b) in sorted(ALLOWED) if a == cur[k] and
                       (b != "running" or all(cur[i] == "completed" for i in parents[k]))]
                if not nxt:
                    continue
                tgt = rng.choice(nxt)
                rs.transition(ops[k], OperatorState(tgt))
                cur[k] = tgt
            vec = [OperatorState(c) for c in cur]
            want_states = rng.sample(states, rng.randint(1, 3))
            for req in (False, True):
                got = rs.get_ops(want_states, require_parents_complete=req)
                exp = [ops[k] for k in range(n) if vec[k] in want_states and
                       (not req or all(vec[i] == OperatorState.COMPLETED for i in parents[k]))]
                gpos = {id(o): i for i, o in enumerate(got)}
                okset = len(got) == len(exp) and len(gpos) == len(got) and all(id(o) in gpos for o in exp)
                okorder = okset and all(gpos[id(ops[i])] < gpos[id(ops[k])] for k in range(n) for i in parents[k]
                                        if id(ops[k]) in gpos and id(ops[i]) in gpos)
                if not okset or not okorder:
                    mon.fail("get-ops", f"DAG {parents}, states {[s.value for s in vec]}, filter {[s.value for s in want_states]}, "
                                        f"require_parents_complete={req}: got {[ops.index(o) for o in got]}, want the set "
                                        f"{[ops.index(o) for o in exp]} listed parents first")
                mon.count("get_ops_vectors_checked")
    mon.hit({"n": n, "range": [lo, hi], "example": gen.dag_from_index(n, hi - 1)})


def check_big_dags(case, mon):
    from .. import sut
    from eudoxia.workload.runtime_status import OperatorState
    rng = random.Random(case["seed"])
    for parents in big_dags(rng):
        n = len(parents)
        p = sut.Pipeline("big", sut.Priority.BATCH_PIPELINE)
        ops = []
        for k in range(n):
            ops.append(p.new_operator([ops[i] for i in parents[k]] or None))
        visited = list(p.values)
        pos = {id(o): i for i, o in enumerate(visited)}
        bad = None
        if len(visited) != n or len(pos) != n or any(id(o) not in pos for o in ops):
            bad = f"iteration visited {len(visited)} nodes ({len(pos)} distinct) of {n}"
        else:
            for k in range(n):
                for i in parents[k]:
                    if pos[id(ops[i])] > pos[id(ops[k])]:
                        bad = f"node {k} visited before its parent {i}"
        rs = p.runtime_status()
        if bad is None and (len(rs.operator_states) != n or any(o not in rs.operator_states for o in ops)):
            bad = f"runtime status tracks {len(rs.operator_states)} of {n} operators"
        width = max(len(x) for x in parents)
        if bad:
            mon.fail("dag-iteration", f"DAG on {n} nodes (widest join {width}, {sum(1 for x in parents if not x)} roots): {bad}",
                     nodes=n, roots=sum(1 for x in parents if not x), widest_join=width)
        else:
            # drive it to completion through the API in iteration order: every start must be accepted
            try:
                for o in visited:
                    for st in (OperatorState.ASSIGNED, OperatorState.RUNNING, OperatorState.COMPLETED):
                        rs.transition(o, st)
                if not rs.is_pipeline_successful():
                    mon.fail("dag-iteration", f"DAG on {n} nodes: all operators completed in iteration order but the pipeline is not successful")
            except Exception as e:
                mon.fail("dag-iteration", f"DAG on {n} nodes: running the operators in iteration order was refused: {type(e).__name__}: {e}")
        mon.count("big_dags_checked")
        mon.count("big_dag_nodes", n)
    mon.hit({"kind": "bigdags"})


def check_churn(case, mon):
    """Tens of thousands of operators live and die in this process, all through the public API; at every step
    the dependency guard of ->RUNNING and the ready filter are compared with the model."""
    from .. import sut
    from eudoxia.workload.runtime_status import OperatorState
    from ..model import ALLOWED
    rng = random.Random(case["seed"])
    made = 0
    bad = 0
    while made < case["ops"] and bad < 3:
        n = rng.randint(1, 6)
        parents = gen.dag_from_index(n, rng.randrange(gen.count_dags(n)))
        p = sut.Pipeline(f"churn{made}", rng.choice(list(sut.Priority)))
        ops = []
        for k in range(n):
            ops.append(p.new_operator([ops[i] for i in parents[k]] or None))
        made += n
        rs = p.runtime_status()
        cur = ["pending"] * n
        for _ in range(5 * n):
            k = rng.randrange(n)
            ready = all(cur[i] == "completed" for i in parents[k])
            if cur[k] == "assigned" and not ready and rng.random() < 0.5:
                # inadmissible start: must be refused and leave the state alone
                try:
                    rs.transition(ops[k], OperatorState.RUNNING)
                    refused = False
                except Exception:
                    refused = True
                mon.count("churn_dependency_refusals")
                if not refused or ops[k].state().value != "assigned":
                    bad += 1
                    mon.fail("dependency-not-rejected", f"after {made} operators in this process: ->RUNNING of an operator with "
                             f"an unfinished parent was {'accepted' if not refused else 'refused but changed the state'} "
                             f"(DAG {parents}, states {cur}, operator {k})", operators_created=made)
                    break
                continue
            nxt = [b for (a, b) in sorted(ALLOWED) if a == cur[k] and (b != "running" or ready)]
            if not nxt:
                continue
            # drift towards completion so that most operators finish
            tgt = "completed" if "completed" in nxt and rng.random() < 0.8 else rng.choice(nxt)
            try:
                rs.transition(ops[k], OperatorState(tgt))
            except Exception as e:
                bad += 1
                mon.fail("admissible-transition-refused", f"after {made} operators in this process: {cur[k]}->{tgt} refused "
                         f"({type(e).__name__}: {e}) (DAG {parents}, states {cur}, operator {k})", operators_created=made)
                break
            if tgt == "running":
                mon.count("churn_running_accepted")
            cur[k] = tgt
        else:
            got = rs.get_ops([OperatorState.PENDING, OperatorState.FAILED, OperatorState.ASSIGNED], require_parents_complete=True)
            exp = {id(ops[k]) for k in range(n) if cur[k] in ("pending", "failed", "assigned")
                   and all(cur[i] == "completed" for i in parents[k])}
            mon.count("churn_ready_filters_checked")
            if {id(o) for o in got} != exp or len(got) != len(exp):
                bad += 1
                mon.fail("get-ops", f"after {made} operators in this process: ready filter returned {sorted(ops.index(o) for o in got)}, "
                                    f"want {sorted(k for k in range(n) if id(ops[k]) in exp)} (DAG {parents}, states {cur})",
                         operators_created=made)
    mon.count("churn_operators", made)
    mon.hit({"kind": "churn", "operators": made})


def run_case(case, mon):
    if case["kind"] == "dags":
        return check_dag_range(case, mon)
    if case["kind"] == "churn":
        return check_churn(case, mon)
    if case["kind"] == "bigdags":
        return check_big_dags(case, mon)
    if case["kind"] == "sim":
        _sim.run_sim_case(case, mon, ID, nontrivial=lambda h: h.events.get("running_events_with_parents", 0) > 0)
        return
    w, mine = _exec.run_exec_case(case, mon, ID, driver=_exec.mix_driver(case), max_steps=case.get("driver", {}).get("steps", 60))
    if (w.ended or "").endswith("dependency") or w.events.get("transitions_logged", 0) > 0:
        mon.hit({"ended": w.ended, "steps": w.step_no + 1})
