"""C13 - trace replay delivers each pipeline once, at the first tick >= its arrival.

UNIT on the trace workload (CSVWorkloadReader -> WorkloadTrace.run_one_tick stepped tick by
tick): arrival *texts* are judged with exact rational arithmetic (M8): delivery tick must be
ceil(text * tps) - strictly for texts exactly on the grid or clearly off it, either
neighbour for texts within 1e-9 tick of a boundary; exactly once; never early; equal
arrivals in file order; nothing beyond the run's end.  Texts: every grid point k <= K of each
tick rate as exact decimal, as k*fl(1/tps) (what gentrace writes) and as fl(k/tps); off-grid;
near-grid; large ticks; bursts and gaps.  Round trips: `eudoxia gentrace` through the CLI
entry, then replay: every pipeline must come back in the tick the generator produced it."""
import io
import os
from fractions import Fraction

from ..core import rng_for
from .. import gen, env
from ..model import arrival_tick, exact_ticks

ID = "C13"
LEVEL = "exploration"
ANCHORS = ["eudoxia/workload/workload.py", "eudoxia/workload/csv_io.py", "eudoxia/__main__.py"]
RULE = ("cases = trace files: per tick rate all grid points k = 0..K (K = 2000 quick / 20000 thorough) in three textual forms, "
        "generated off-grid / near-grid / large / equal / late arrivals, and gentrace round trips over seeds and workload "
        "parameters; non-trivial = a file with >= 1 pipeline whose delivery tick was compared with the exact tick of its text; "
        "distinct = distinct files")
ASSUMPTIONS = [
    "arrival texts are read as exact decimals; a text within 1e-9 tick of a boundary without being on it may be delivered on either side (T4)",
    "rows are in ascending arrival order (the statement's precondition)",
    "open known finding C13-late-by-one-float-quotient is recognised by mechanism only",
]
NSHARDS = {"quick": 16, "thorough": 16}
K = {"quick": 2000, "thorough": 60000}
N_RANDOM = {"quick": 40, "thorough": 5000}
N_ROUNDTRIP = {"quick": 8, "thorough": 600}
REQUIRE = {"gentrace_onto_an_existing_trace_file": 30, "texts:on_grid_exact_decimal": 10000, "texts:k_times_fl": 10000, "texts:fl_k_over_tps": 10000, "texts:off_grid": 2000,
           "texts:near_grid": 500, "texts:equal_arrivals": 500, "texts:beyond_end": 100, "texts:large": 10,
           "roundtrip_pipelines": 500, "deliveries_compared": 40000, "texts:close_pairs": 60}
TPS_LIST = [1, 2, 3, 5, 7, 10, 20, 60, 100, 1000, 10000, 100000]


def finite_decimal(tps):
    t = tps
    for p in (2, 5):
        while t % p == 0:
            t //= p
    return t == 1


def dec_text(fr):
    """Exact decimal text of a Fraction with a 2^a5^b denominator."""
    n, d = fr.numerator, fr.denominator
    digits = 0
    while d != 1 and digits < 40:
        n *= 10
        digits += 1
        g = Fraction(n, d)
        if g.denominator == 1:
            n = g.numerator
            d = 1
            break
    if d != 1:
        n = fr.numerator * 10 ** digits // fr.denominator
    s = str(n).rjust(digits + 1, "0")
    return (s[:-digits] + "." + s[-digits:]) if digits else s


def cases(tier, seed, shard, nshards):
    rng = rng_for(ID, seed, shard)
    idx = 0
    if shard == 0:
        yield {"kind": "texts", "tps": 100, "form": "witness", "texts": ["0.07"], "ticks": 12, "_witness": True}
        yield {"kind": "roundtrip", "tps": 10, "_witness": True, "duration": 3.0,
               "wparams": {"waiting_seconds_mean": 0.3, "num_pipelines": 1, "num_operators": 1, "random_seed": 1,
                           "interactive_prob": 0.0, "query_prob": 1.0, "batch_prob": 0.0, "cpu_io_ratio": 0.5}}
    for tps in TPS_LIST:
        for form in ("decimal", "kfl", "flk"):
            if form == "decimal" and not finite_decimal(tps):
                continue
            for lo in range(0, K[tier] + 1, 500):
                if idx % nshards == shard:
                    yield {"kind": "grid", "tps": tps, "form": form, "lo": lo, "hi": min(K[tier], lo + 499)}
                idx += 1
    for i in range(N_RANDOM[tier]):
        tps = rng.choice(TPS_LIST + [rng.randint(1, 100000)])
        n = rng.randint(5, 120)
        texts = []
        t = Fraction(0)
        for j in range(n):
            cls = rng.choice(["off", "off", "near+", "near-", "equal", "grid", "gap"])
            if cls == "equal" and texts:
                texts.append(texts[-1])
                continue
            step = Fraction(rng.randint(0, 6)) if cls != "gap" else Fraction(rng.randint(50, 400))
            t = t + step
            base = Fraction(int(t))
            if cls == "off":
                val = (base + Fraction(rng.randint(1, 999), 1000)) / tps
            elif cls == "near+":
                val = (base + Fraction(1, 10 ** 12)) / tps
            elif cls == "near-":
                val = max(Fraction(0), (base - Fraction(1, 10 ** 12))) / tps
            else:
                val = base / tps
            t = val * tps
            txt = repr(float(val)) if rng.random() < 0.5 or not finite_decimal(tps) else dec_text(val)
            if texts and Fraction(txt) < Fraction(texts[-1]):
                txt = texts[-1]
            texts.append(txt)
        last = int(exact_ticks(texts[-1], tps)) + 3
        cut = rng.random() < 0.3
        yield {"kind": "texts", "tps": tps, "form": "random", "texts": texts,
               "ticks": max(1, last // 2) if cut else last}
    for i in range(2 if tier == "quick" else 30):
        # pairs of distinct arrivals that are extremely close in *relative* terms but lie on
        # different sides of a tick boundary: they must not be merged into one delivery
        tps = rng.choice([100, 1000, 10000])
        texts = []
        k = rng.randint(20000, 60000)
        for j in range(rng.randint(2, 6)):
            k += rng.randint(1, 40)
            a = Fraction(k, tps)
            d = Fraction(rng.choice([1, 3, 10, 100]), 10 ** 5) / tps      # 1e-5 .. 1e-3 tick later
            texts.append(dec_text(a))
            texts.append(dec_text(a + d))
        yield {"kind": "texts", "tps": tps, "form": "close-pairs", "texts": texts, "ticks": k + 5}
    if tier == "thorough" or shard < 4:
        tps = rng.choice([10, 100, 1000])
        big = rng.choice([10 ** 6, 3 * 10 ** 6] if tier == "quick" else [10 ** 6, 10 ** 7])
        ks = sorted(rng.sample(range(big - 2000, big), 12))
        yield {"kind": "texts", "tps": tps, "form": "large", "texts": [repr(k * (1.0 / tps)) for k in ks] + [repr(k / tps) for k in [big, big + 1]],
               "ticks": big + 4}
    for i in range(N_ROUNDTRIP[tier]):
        tps = rng.choice([1, 2, 3, 5, 7, 10, 20, 60, 100, 1000])
        iq = rng.choice(gen.PROB_TRIPLES)
        yield {"kind": "roundtrip", "tps": tps, "duration": rng.choice([300, 1000, 3000]) / tps,
               "wparams": {"waiting_seconds_mean": rng.choice([1, 3, 10, 40]) / tps, "num_pipelines": rng.choice([1, 2, 5]),
                           "num_operators": rng.choice([1, 3]), "random_seed": rng.randint(0, 10 ** 6),
                           "interactive_prob": iq[0], "query_prob": iq[1], "batch_prob": iq[2], "cpu_io_ratio": rng.choice([0, 0.5, 1])}}


HEADER = "pipeline_id,arrival_seconds,priority,operator_id,parents,baseline_cpu_seconds,cpu_scaling,memory_gb,storage_read_gb\n"


def replay(texts, tps, ticks):
    """Deliveries {pipeline index: [ticks]} and per-tick order, from the real reader."""
    from eudoxia.workload.csv_io import CSVWorkloadReader
    rows = [HEADER]
    for i, txt in enumerate(texts):
        rows.append(f"t{i},{txt},BATCH_PIPELINE,op1,,1,const,,0\n")
    wl = CSVWorkloadReader(io.StringIO("".join(rows))).get_workload(tps)
    seen = {}
    order_bad = None
    for t in range(ticks):
        got = wl.run_one_tick()
        prev = -1
        for p in got:
            if p is _MINE:
                # a list handed out earlier (and since then the consumer's own) was handed out again
                order_bad = ("alias", t)
                continue
            i = int(p.pipeline_id[1:])
            seen.setdefault(i, []).append(t)
            if i < prev:
                order_bad = (t, prev, i)
            prev = i
        # the delivered list now belongs to the consumer, which may extend it (merging several sources)
        if not got or got[-1] is not _MINE:
            got.append(_MINE)
    return seen, order_bad


_MINE = object()


def judge(texts, tps, ticks, seen, order_bad, mon, form):
    for i, txt in enumerate(texts):
        want, strict = arrival_tick(txt, tps)
        x = exact_ticks(txt, tps)
        got = seen.get(i, [])
        detail = dict(text=txt, tps=tps, expected_tick=want, form=form)
        if len(got) > 1:
            mon.fail("delivered-twice", f"'{txt}' @ {tps} ticks/s delivered in ticks {got}", **detail)
            continue
        if want >= ticks:
            nwant = round(x)
            mon.count("texts:beyond_end")
            if got and not (not strict and got[0] == nwant):
                mon.fail("delivered-beyond-end", f"'{txt}' @ {tps}: arrival tick {want} is past the run's end {ticks} but it was delivered in {got}", **detail)
            continue
        if not got:
            mon.fail("never-delivered", f"'{txt}' @ {tps} ticks/s: due in tick {want} of {ticks}, never delivered", run_ticks=ticks, **detail)
            continue
        d = got[0]
        mon.count("deliveries_compared")
        ok = (d == want) or (not strict and d in (round(x), want))
        if not ok:
            if d < want:
                mon.fail("early-delivery", f"'{txt}' @ {tps} ticks/s delivered in tick {d}, before its arrival (exact position {float(x)!r} ticks, due {want})",
                         delivered_tick=d, **detail)
            else:
                mon.fail("late-delivery", f"'{txt}' @ {tps} ticks/s delivered in tick {d}, first tick at or after the arrival is {want}",
                         delivered_tick=d, **detail)
    if order_bad and order_bad[0] == "alias":
        mon.fail("delivered-list-reused", f"tick {order_bad[1]}: the trace handed out a list object it had handed out before; "
                                          f"what the consumer had put into it came back as arrivals", tps=tps)
    elif order_bad:
        mon.fail("file-order", f"tick {order_bad[0]}: pipeline t{order_bad[2]} delivered after t{order_bad[1]} (file order broken)", tps=tps)


_REUSED = set()


def _cleanup_reused():
    for p_ in list(_REUSED):
        try:
            os.remove(p_)
            os.rmdir(os.path.dirname(p_))
        except OSError:
            pass


import atexit
atexit.register(_cleanup_reused)


def run_roundtrip(case, mon):
    import contextlib
    import tomlkit
    import eudoxia.__main__ as em
    from eudoxia.workload import WorkloadGenerator
    from eudoxia.workload.csv_io import CSVWorkloadReader
    from eudoxia.simulator import parse_args_with_defaults
    tps = case["tps"]
    params = dict(case["wparams"], ticks_per_second=tps, duration=case["duration"], num_segs=1)
    d = os.path.join(env.VERIF_DIR, ".work", f"c13-{os.getpid()}")
    os.makedirs(d, exist_ok=True)
    # every second round trip regenerates a trace file that already exists (`gentrace -f` onto the previous,
    # usually longer or shorter, trace of this process): the file must then hold the new trace and nothing else
    reuse = case["wparams"]["random_seed"] % 2 == 0
    pf, tf = os.path.join(d, "p.toml"), os.path.join(d, "t-regenerated-in-place.csv" if reuse else "t.csv")
    if reuse:
        if os.path.exists(tf):
            mon.count("gentrace_onto_an_existing_trace_file")
        _REUSED.add(tf)
    try:
        t = tomlkit.table()
        t.update(params)
        with open(pf, "w") as f:
            tomlkit.dump(t, f)
        with contextlib.redirect_stdout(io.StringIO()):
            em.main(["gentrace", pf, tf, "-f"])
        full = parse_args_with_defaults(params)
        g = WorkloadGenerator(**full)
        max_ticks = int(full["duration"] * tps)
        gen_tick = []
        for k in range(max_ticks):
            for p in g.run_one_tick():
                gen_tick.append((k, p))
        import csv
        with open(tf) as f:
            texts = [r["arrival_seconds"] for r in csv.DictReader(f) if r["arrival_seconds"].strip()]
        with open(tf) as f:
            wl = CSVWorkloadReader(f).get_workload(tps)
            rep = []
            for k in range(max_ticks + 2):
                for p in wl.run_one_tick():
                    rep.append((k, p))
        if len(texts) != len(gen_tick):
            mon.fail("roundtrip-count", f"generator produced {len(gen_tick)} pipelines, trace holds {len(texts)}")
            return
        for i, (k, p) in enumerate(gen_tick):
            mon.count("roundtrip_pipelines")
            if i >= len(rep):
                if k < max_ticks:
                    mon.fail("roundtrip-lost", f"pipeline {i} generated in tick {k} never replayed (text '{texts[i]}' @ {tps})",
                             text=texts[i], tps=tps, expected_tick=k)
                continue
            rk, rp = rep[i]
            if rk != k:
                kind = "roundtrip-late" if rk > k else "roundtrip-early"
                mon.fail(kind, f"pipeline {i} generated in tick {k} is replayed in tick {rk} (gentrace wrote '{texts[i]}' @ {tps} ticks/s)",
                         text=texts[i], tps=tps, expected_tick=k, delivered_tick=rk)
            if rp.priority != p.priority or len(rp.values) != len(p.values):
                mon.fail("roundtrip-content", f"pipeline {i}: priority/operators differ after the round trip")
        if gen_tick:
            mon.hit({"tps": tps, "pipelines": len(gen_tick), "first_texts": texts[:5]})
    finally:
        for p_ in (pf, tf):
            if p_ in _REUSED:
                continue
            try:
                os.remove(p_)
            except OSError:
                pass
        try:
            os.rmdir(d)
        except OSError:
            pass


def run_case(case, mon):
    if case["kind"] == "roundtrip":
        return run_roundtrip(case, mon)
    tps = case["tps"]
    if case["kind"] == "grid":
        tl = 1.0 / tps
        ks = range(case["lo"], case["hi"] + 1)
        if case["form"] == "decimal":
            texts = [dec_text(Fraction(k, tps)) for k in ks]
            mon.count("texts:on_grid_exact_decimal", len(texts))
        elif case["form"] == "kfl":
            texts = [repr(k * tl) for k in ks]
            mon.count("texts:k_times_fl", len(texts))
        else:
            texts = [repr(k / tps) for k in ks]
            mon.count("texts:fl_k_over_tps", len(texts))
        ticks = case["hi"] + 3
    else:
        texts = case["texts"]
        ticks = case["ticks"]
        for a, b in zip(texts, texts[1:]):
            if a == b:
                mon.count("texts:equal_arrivals")
        for txt in texts:
            w_, strict = arrival_tick(txt, tps)
            x = exact_ticks(txt, tps)
            if not strict:
                mon.count("texts:near_grid")
            elif x.denominator != 1:
                mon.count("texts:off_grid")
        if case["form"] == "large":
            mon.count("texts:large", len(texts))
        if case["form"] == "close-pairs":
            mon.count("texts:close_pairs", len(texts) // 2)
    seen, order_bad = replay(texts, tps, ticks)
    judge(texts, tps, ticks, seen, order_bad, mon, case.get("form"))
    mon.hit({"tps": tps, "form": case.get("form"), "n": len(texts), "texts_head": texts[:4],
             "delivered_head": [seen.get(i) for i in range(min(4, len(texts)))]})
