"""Shared plumbing for the properties decided on the EXEC driver."""
from ..core import rng_for
from .. import execgen


def run_exec_case(case, mon, prop, driver=None, max_steps=200, sample_extra=None):
    """Run one EXEC case (adaptive if a driver is given and the case has no recorded script),
    count what was observed, report the problems tagged with `prop`.  Returns the world."""
    from ..execworld import World, run_with_choices, ANY
    if "steps" in case and case["steps"] is not None and not case.get("_adaptive_pending"):
        w, probs, status = run_with_choices(case)
    else:
        case.pop("_adaptive_pending", None)
        w = World(case)
        probs = w.run(driver=driver, max_steps=max_steps)
        status = "ok" if not probs else "problems"
        if probs and w.n_amb:
            # re-run the now recorded script under the other resolutions of float-boundary choices
            w2, probs2, status = run_with_choices(case)
            if status != "problems":
                w, probs = w2, probs2
    if status == "skipped-ambiguous":
        # problems under the default resolution of float-boundary decisions, too many alternatives to try:
        # no verdict from this case (the share of such cases is limited, see core LIMIT_FRACTION)
        mon.count("skipped_too_ambiguous")
        return w, []
    for k, v in w.events.items():
        mon.count(k, v)
    if w.step_no + 1 > 4096:
        mon.count("scale:script_of_more_than_4096_ticks")
    _ex = {}
    for mc in w.containers:
        if mc.status in ("ok", "failed"):
            _ex[mc.pool] = _ex.get(mc.pool, 0) + 1
    if max(_ex.values(), default=0) > 1000:
        mon.count("scale:script_with_more_than_1000_exits_on_one_pool")
    if w.npools > 8:
        mon.count("scale:script_with_more_than_8_pools")
    mon.count("steps", w.step_no + 1)
    mon.count("containers", len(w.containers))
    if w.ended:
        mon.count("ended:" + w.ended)
    mine = [p for p in probs if prop in p.tags or ANY in p.tags]
    other = [p for p in probs if p not in mine]
    if other:
        mon.count("problems_tagged_for_other_properties", len(other))
    seen = set()
    for p in mine:
        if p.kind in seen:
            continue
        seen.add(p.kind)
        mon.fail(p.kind, p.msg, step=p.step, tags=list(p.tags), ended=w.ended)
    return w, mine


def mix_case(rng, seed_tag, **kw):
    w = execgen.world_cfg(rng, **{k: kw[k] for k in ("pools", "overcommit", "multi", "small_ram", "tps") if k in kw})
    pipes = execgen.pipelines_for(rng, w, kw.get("npipes") or rng.randint(2, 8), mem_heavy=kw.get("mem_heavy", False),
                                  maxn=kw.get("maxn", 6), nops=kw.get("nops"))
    return {"kind": "mix", "world": w, "pipelines": pipes, "driver_seed": rng.getrandbits(48),
            "driver": {k: kw[k] for k in ("steps", "p_assign", "p_suspend", "p_bad", "bad_kinds", "integer_sizes", "p_unready",
                                          "fixed_size", "per_pool") if k in kw},
            "drain": kw.get("drain", 300), "_adaptive_pending": True, "steps": None}


def mix_driver(case):
    import random
    return execgen.MixDriver(random.Random(case["driver_seed"]), **case.get("driver", {}))


def busy_case(rng, steps, growing=False, p_suspend=0.15):
    """A long, *busy* script in one pool: dozens of unit-sized containers alive at any time, several
    completions and starts in every tick, multi-tick write-outs always in progress.  Pool tick
    counters pass 4096 (twice in the thorough tier), > 1000 container exits, > 10,000 memory updates."""
    tps = 100
    w = {"pools": 1, "cpus": 64, "ram": 256, "tps": tps, "multi": True, "overcommit": False}
    n = max(600, int(steps * 2.2))
    pipes = []
    for i in range(n):
        nops = rng.choice([2, 2, 3])
        ops = []
        for k in range(nops):
            t_io = rng.choice([0, 1, 2]) if growing else 0
            ops.append({"parents": [k - 1] if k else [],
                        "segs": [{"cpu": (rng.randint(1, 3) + 0.5) / tps, "law": "const",
                                  "mem": None if growing else 0.05, "read": 20.0 * (t_io + 0.5) / tps if growing else 0.0}]})
        pipes.append({"pid": f"b{i}", "prio": "BATCH_PIPELINE", "ops": ops})
    return {"kind": "mix", "world": w, "pipelines": pipes, "driver_seed": rng.getrandbits(48),
            "driver": {"steps": steps, "p_assign": 1.0, "p_suspend": p_suspend, "p_bad": 0.0, "integer_sizes": True, "p_unready": 0.0,
                       "fixed_size": [1, 3.3], "per_pool": 3},     # 3.3 GB: write-out 16.5 ticks (no float-boundary decision), CPU-bound pool
            "drain": 400, "_adaptive_pending": True, "steps": None, "_busy": True}


def mass_start_case(rng, n=None):
    """Many containers start in one tick in one overcommitted pool and together demand a multiple of its RAM:
    the pool-level killer has to take many victims (9 .. n) in a single tick, with mixed allocations (scores) and
    ties.  A second wave follows while the survivors still run."""
    tps = rng.choice([1, 10, 100])
    n = n or rng.choice([12, 24, 40, 60])
    ram = rng.choice([64, 64, 128, 16])
    w = {"pools": 1, "cpus": 128, "ram": ram, "tps": tps, "multi": True, "overcommit": True}
    pipes, asg0, asg1 = [], [], []
    share = ram * rng.choice([2.0, 3.0, 6.0]) / n           # together 2x .. 6x the pool
    for i in range(2 * n):
        growing = rng.random() < 0.3
        m = share * rng.choice([0.5, 1.0, 1.0, 1.5])
        ticks = rng.choice([2, 3, 5])
        if growing:
            seg = {"cpu": (ticks + 0.5) / tps, "law": "const", "mem": None, "read": m}
        else:
            seg = {"cpu": (ticks + 0.5) / tps, "law": "const", "mem": m, "read": 0.0}
        pipes.append({"pid": f"m{i}", "prio": rng.choice(["BATCH_PIPELINE", "INTERACTIVE", "QUERY"]),
                      "ops": [{"parents": [], "segs": [seg]}]})
        alloc = rng.choice([ram, ram, 2 * m, 4 * m, m * 1.0000001 + 0.001, ram * 4])
        (asg0 if i < n else asg1).append({"pool": 0, "cpu": 1, "ram": alloc, "ops": [[i, 0]]})
    steps = [{"sus": [], "asg": asg0}, {"sus": [], "asg": []}, {"sus": [], "asg": asg1}] + [{"sus": [], "asg": []} for _ in range(12)]
    return {"kind": "mix", "world": w, "pipelines": pipes, "steps": steps, "drain": 60, "_mass_start": n,
            "driver_seed": 0, "driver": {"steps": len(steps)}}


def quiet_scan_case(rng, ticks=None):
    """A quiet pool: a handful of long scans grow tick by tick for thousands of ticks and nothing exits - tens of
    thousands of incremental memory updates in one pool without any of the re-summing that container exits,
    kills or suspensions bring (periodic audits / resyncs of the running total would have to be exact here)."""
    tps = rng.choice([50, 100, 200])
    n = rng.choice([5, 7, 8, 11])
    ticks = ticks or rng.choice([5000, 7000])
    w = {"pools": 1, "cpus": 16, "ram": 10 ** 6, "tps": tps, "multi": True, "overcommit": rng.random() < 0.5}
    pipes, asg = [], []
    for i in range(n):
        t_io = ticks - rng.randint(0, 400) - 37 * i               # staggered ends, all late
        read = 20.0 * (t_io + 0.5) / tps
        pipes.append({"pid": f"scan{i}", "prio": "BATCH_PIPELINE",
                      "ops": [{"parents": [], "segs": [{"cpu": 3.5 / tps, "law": "const", "mem": None, "read": read}]}]})
        asg.append({"pool": 0, "cpu": 1, "ram": read * 1.5 + 1.0, "ops": [[i, 0]]})
    return {"kind": "mix", "world": w, "pipelines": pipes, "steps": [{"sus": [], "asg": asg}], "drain": ticks + 50,
            "_quiet_scan": n * ticks, "driver_seed": 0, "driver": {"steps": 1}}
