"""C16 - priority-pool keeps batch work and latency-sensitive work on separate pools.

SIM on two pools: every decision is judged (P3 decisions joined with P4 failure results):
query / interactive containers only on pool 0, batch containers only on pool 1 (first
attempts and retries), no suspension ever; after an OOM failure the retry contains exactly
the unfinished operators of the failed container, in one assignment, sized to the doubled
request (or the whole free pool when the doubling reaches it), and is never assigned when the
doubled request reaches half of the pool."""
from ..core import rng_for
from . import _sim

ID = "C16"
LEVEL = "exploration"
ANCHORS = ["eudoxia/scheduler/priority_pool.py", "eudoxia/scheduler/waiting_queue.py"]
RULE = ("cases = priority-pool simulations on two pools: priority mixes, DAG workloads, pool sizes and memory profiles that make the "
        "doubling reach the 50% cut-off after 1..3 retries; non-trivial = a run with at least one OOM failure followed by a retry "
        "decision (assigned or abandoned); distinct = distinct configurations")
ASSUMPTIONS = ["a retry is recognised as any later assignment containing an operator of the failed container's unfinished set",
               "retry size: exactly doubled, or the whole free pool when the doubled request does not fit (the code's take-all rule)"]
NSHARDS = {"quick": 16, "thorough": 16}
N = {"quick": 50, "thorough": 6000}
REQUIRE = {"scale:run_with_more_than_8192_pipelines": 1, "assignments_class:QUERY": 200, "assignments_class:INTERACTIVE": 200, "assignments_class:BATCH_PIPELINE": 200,
           "oom_failures_seen": 500, "retries_assigned": 200, "retries_to_be_abandoned": 100, "sim_runs": 500}


def cases(tier, seed, shard, nshards):
    rng = rng_for(ID, seed, shard)
    for i in range(N[tier]):
        c = _sim.random_sim_case(rng, small=rng.random() < 0.6, algos=("priority-pool",), workload=rng.choice(["script", "script", "generator"]),
                                 mem_levels=[0.05, 0.12, 0.15, 0.25, 0.3, 0.45, 0.6], npipes=rng.choice([4, 10, 25]),
                                 prio_weights=rng.choice([[1, 1, 1], [3, 1, 1], [1, 1, 4]]))
        yield c
        if i % 5 == 0:
            yield _sim.preemption_case(rng, algo="priority-pool", oom=True)
    # scale cases: large in one dimension (one per shard for the first shards; all of them, twice, in the thorough tier)
    _kinds = ["many-small-x2:priority-pool", "many-small:priority-pool"]
    for _j, _kd in enumerate(_kinds * (1 if tier == "quick" else 2)):
        if tier == "thorough" or _j == shard:
            _k, _, _a = _kd.partition(":")
            yield _sim.scale_case(rng, _k, algo=_a or None)
    if tier == "thorough":
        for _k in range(2):
            yield _sim.long_sim_case(rng, algos=("priority-pool",))


def run_case(case, mon):
    _sim.run_sim_case(case, mon, ID, nontrivial=lambda h: h.events.get("oom_failures_seen", 0) > 0)
