"""Known findings: committed file + narrow mechanism classifiers.

known_findings.json is never written at run time.  An ``open`` entry names a
classifier below; a violation is "known" only if the classifier recognises the
recorded *mechanism* in the violation's own detail, so a different violation of
the same property is still reported.  ``fixed`` entries suppress nothing.
"""
import json
import math
import os
from fractions import Fraction

from . import env

PATH = os.path.join(env.VERIF_DIR, "known_findings.json")


def load():
    try:
        with open(PATH) as f:
            return json.load(f)["findings"]
    except FileNotFoundError:
        return []


# --- classifiers -------------------------------------------------------------


def _c13_late_by_one(v):
    """Trace replay delivers exactly one tick late *and* the reader's own float
    quotient float(text)/(1.0/tps) lies strictly above the exact tick of the text
    (or, for gentrace round trips, above the tick the generator produced it in).
    A reader that is late for any other reason ('<' instead of '<=', an off-by-one
    cursor) is late also where that quotient is exact, and is not matched."""
    if v.get("kind") not in ("late-delivery", "roundtrip-late", "never-delivered"):
        return False
    d = v.get("detail") or {}
    try:
        text, tps = d["text"], int(d["tps"])
        expected = int(d["expected_tick"])
        if v["kind"] == "never-delivered":
            # the same lateness seen at the run's end: due in the very last tick, one tick late = never
            if expected != int(d["run_ticks"]) - 1:
                return False
            got = expected + 1
        else:
            got = int(d["delivered_tick"])
    except (KeyError, TypeError, ValueError):
        return False
    if got != expected + 1:
        return False
    q = float(text) / (1.0 / tps)
    if not q > expected:
        return False
    # the float quotient must itself still be within float noise of the expected tick
    return q - expected < 1e-6 * max(1.0, expected)


def _c08_priority_pool_single_op(v):
    """priority-pool with multi_operator_containers = false hands a whole multi-operator
    pipeline to one container and the pool rejects it."""
    if v.get("kind") != "run-raised":
        return False
    d = v.get("detail") or {}
    return (d.get("algo") == "priority-pool" and d.get("multi_operator_containers") is False
            and d.get("exc_type") == "AssertionError"
            and "exactly 1 operator when multi_operator_containers is False" in (d.get("exc_msg") or "")
            and (d.get("max_ops_per_pipeline") or 0) > 1)


CLASSIFIERS = {
    "c13_late_by_one": _c13_late_by_one,
    "c08_priority_pool_single_op": _c08_priority_pool_single_op,
}


def classify(prop_id, violation, known=None):
    """Return the id of the open finding that explains this violation, or None."""
    known = load() if known is None else known
    for f in known:
        if f.get("status") != "open" or f.get("property") != prop_id:
            continue
        fn = CLASSIFIERS.get(f.get("classifier"))
        if fn is None:
            continue
        try:
            if fn(violation):
                return f["id"]
        except Exception:
            continue
    return None


def describe(fid, known=None):
    known = load() if known is None else known
    for f in known:
        if f["id"] == fid:
            return f["what"]
    return fid


def open_witnesses(prop_id, known=None):
    known = load() if known is None else known
    return [f for f in known if f.get("status") == "open" and f.get("property") == prop_id]
