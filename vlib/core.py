"""Runner, collector and evidence writer shared by all property checks.

Parent process (``./check <ID>``): starts one worker subprocess per shard (each
with its own wall-clock watchdog), merges what the workers observed, classifies
violations against known_findings.json, writes evidence/<ID>.json and prints
the verdict lines.

Verdicts are three-valued:
  exit 0  held on everything explored (every deciding counter reached its minimum)
  exit 1  ``VIOLATION property=<id> replay=<path>``
  exit 2  ``INCONCLUSIVE property=<id> reason=...`` (a deciding monitor observed
          nothing / too little, a worker died or hit the watchdog, the harness
          itself failed)
"""
import hashlib
import importlib
import json
import os
import random
import subprocess
import sys
import time
import traceback
from collections import Counter
from concurrent.futures import ThreadPoolExecutor

from . import env

MAX_VIOLATIONS_KEPT = 40
MAX_SAMPLES = 6
MAX_SIGS = 400000


def stable_seed(*parts) -> int:
    h = hashlib.sha256("|".join(str(p) for p in parts).encode()).digest()
    return int.from_bytes(h[:8], "big")


def rng_for(*parts) -> random.Random:
    return random.Random(stable_seed(*parts))


def case_hash(case) -> str:
    return hashlib.sha256(json.dumps(case, sort_keys=True, default=str).encode()).hexdigest()[:16]


def jsonable(x, depth=0):
    """Best-effort conversion of observed objects into JSON-serialisable data."""
    if depth > 8:
        return repr(x)
    if x is None or isinstance(x, (bool, int, str)):
        return x
    if isinstance(x, float):
        if x != x:
            return "nan"
        if x in (float("inf"), float("-inf")):
            return repr(x)
        return x
    if isinstance(x, dict):
        return {str(k): jsonable(v, depth + 1) for k, v in x.items()}
    if isinstance(x, (list, tuple, set, frozenset)):
        return [jsonable(v, depth + 1) for v in x]
    try:
        import fractions
        if isinstance(x, fractions.Fraction):
            return float(x)
    except Exception:
        pass
    try:
        import numpy as np
        if isinstance(x, np.generic):
            return jsonable(x.item(), depth + 1)
    except Exception:
        pass
    return repr(x)


def abbreviate(x, max_list=4, max_str=300, depth=0):
    """Evidence samples must show what a case looks like, not reproduce a 5,000-pipeline file:
    long lists keep their first elements and say how many were dropped."""
    if depth > 10:
        return "..."
    if isinstance(x, dict):
        items = list(x.items())
        out = {str(k): abbreviate(v, max_list, max_str, depth + 1) for k, v in items[:40]}
        if len(items) > 40:
            out["..."] = f"{len(items) - 40} more keys"
        return out
    if isinstance(x, (list, tuple)):
        out = [abbreviate(v, max_list, max_str, depth + 1) for v in x[:max_list]]
        if len(x) > max_list:
            out.append(f"... {len(x) - max_list} more")
        return out
    if isinstance(x, str) and len(x) > max_str:
        return x[:max_str] + f"... ({len(x)} chars)"
    return x


class Mon:
    """Collector handed to every case: counters, violations, samples, signatures."""

    def __init__(self, prop_id):
        self.prop_id = prop_id
        self.counters = Counter()
        self.violations = []
        self.n_violations = 0
        self.samples = []
        self.sigs = set()
        self.errors = []
        self.evaluations = 0
        self.case = None
        self._hit = False
        self._sample = None
        self.max = {}
        self._known = None
        self.known_seen = {}
        self.data = {}      # free-form per-shard data handed to the property's merge() hook

    # -- case bracket -----------------------------------------------------
    def begin_case(self, case):
        self.case = case
        self._hit = False
        self._sample = None
        self.evaluations += 1

    def end_case(self):
        if self._hit:
            if len(self.sigs) < MAX_SIGS:
                self.sigs.add(case_hash(self.case))
            if self._sample is not None and len(self.samples) < MAX_SAMPLES:
                smp = {"case": jsonable(self.case), "observed": jsonable(self._sample)}
                if len(json.dumps(smp, default=str)) > 6000:
                    smp = abbreviate(smp)
                    if len(json.dumps(smp, default=str)) > 12000:
                        smp = abbreviate(smp, max_list=2, max_str=120)
                self.samples.append(smp)
        self.case = None

    def subcase(self, case):
        """Context manager: treat `case` as a case of its own (enumerations inside a scenario)."""
        mon = self

        class _Sub:
            def __enter__(self_inner):
                self_inner.saved = (mon.case, mon._hit, mon._sample)
                mon.case = case
                mon._hit = False
                mon._sample = None
                mon.evaluations += 1
                return mon

            def __exit__(self_inner, *a):
                mon.end_case()
                mon.case, mon._hit, mon._sample = self_inner.saved
                return False

        return _Sub()

    # -- observations -----------------------------------------------------
    def count(self, name, n=1):
        self.counters[name] += n

    def peak(self, name, value):
        if value > self.max.get(name, float("-inf")):
            self.max[name] = value

    def hit(self, sample=None):
        """The current case reached a deciding event of the property (non-trivial)."""
        self._hit = True
        if sample is not None and self._sample is None:
            self._sample = sample

    def fail(self, kind, msg, **detail):
        # known findings are recognised here, per violation, by mechanism; they never
        # use up the per-kind quota of violations kept in full
        from . import findings
        if self._known is None:
            self._known = findings.load()
        v = {"property": self.prop_id, "kind": kind, "msg": msg, "detail": jsonable(detail), "case": None}
        fid = findings.classify(self.prop_id, v, self._known)
        if fid:
            self.counters["known:" + fid] += 1
            if fid not in self.known_seen:
                v["case"] = jsonable(self.case)
                self.known_seen[fid] = v
            return
        self.n_violations += 1
        self.counters["violations:" + kind] += 1
        if self.counters["violations:" + kind] <= 2 and len(self.violations) < MAX_VIOLATIONS_KEPT:
            self.violations.append({
                "property": self.prop_id,
                "kind": kind,
                "msg": msg,
                "detail": jsonable(detail),
                "case": jsonable(self.case),
            })

    def error(self, msg):
        """Harness problem (not a verdict about the property) -> inconclusive."""
        if len(self.errors) < 10:
            self.errors.append(msg)
        self.counters["harness_errors"] += 1


# ---------------------------------------------------------------------------
# line-coverage probe (P7): sys.monitoring LINE events, disabled after first hit


class LineProbe:
    def __init__(self, files):
        self.files = {os.path.join(env.REPO, f): f for f in files if f.endswith(".py")}
        self.hit = {f: set() for f in self.files.values()}
        self.active = False

    def start(self):
        mon = getattr(sys, "monitoring", None)
        if mon is None or not self.files:
            return
        try:
            mon.use_tool_id(mon.COVERAGE_ID, "verif")
        except ValueError:
            return
        files = self.files
        hit = self.hit
        disable = mon.DISABLE

        def on_line(code, line):
            rel = files.get(code.co_filename)
            if rel is not None:
                hit[rel].add(line)
            return disable

        mon.register_callback(mon.COVERAGE_ID, mon.events.LINE, on_line)
        mon.set_events(mon.COVERAGE_ID, mon.events.LINE)
        self.active = True

    def stop(self):
        if not self.active:
            return
        mon = sys.monitoring
        mon.set_events(mon.COVERAGE_ID, 0)
        mon.register_callback(mon.COVERAGE_ID, mon.events.LINE, None)
        mon.free_tool_id(mon.COVERAGE_ID)
        self.active = False

    def result(self):
        return {f: sorted(lines) for f, lines in self.hit.items()}


def executable_lines(path):
    """Line numbers that carry code in a source file (from its compiled code objects)."""
    try:
        src = open(path).read()
        top = compile(src, path, "exec")
    except Exception:
        return set()
    lines = set()
    stack = [top]
    while stack:
        co = stack.pop()
        for _, _, ln in co.co_lines():
            if ln is not None and ln > 0:
                lines.add(ln)
        for c in co.co_consts:
            if hasattr(c, "co_lines"):
                stack.append(c)
    return lines


# ---------------------------------------------------------------------------
# worker


def load_prop(prop_id):
    return importlib.import_module(f"vlib.props.{prop_id.lower()}")


def worker_main(argv):
    prop_id, tier, seed, shard, nshards, out = argv[0], argv[1], int(argv[2]), int(argv[3]), int(argv[4]), argv[5]
    replay = argv[6] if len(argv) > 6 else None
    t0 = time.time()
    mod = load_prop(prop_id)
    mon = Mon(prop_id)
    if os.environ.get("VERIF_LOGGING") == "default":
        mon.count("worker_processes_with_default_debug_logging")
    probe = LineProbe(getattr(mod, "ANCHORS", []))
    try:
        probe.start()      # before the import, so that module-level lines of the anchor files count
        env.setup()
        if hasattr(mod, "prepare"):
            mod.prepare()
        if replay:
            rp = json.load(open(replay))
            cases = [rp["case"]]
        else:
            cases = mod.cases(tier, seed, shard, nshards)
        for case in cases:
            mon.begin_case(case)
            try:
                mod.run_case(case, mon)
            except Exception:
                mon.error("harness exception in case %s: %s" % (case_hash(case), traceback.format_exc()[-1500:]))
            mon.end_case()
    except Exception:
        mon.error("worker failed: " + traceback.format_exc()[-2000:])
    finally:
        probe.stop()
    res = {
        "shard": shard,
        "evaluations": mon.evaluations,
        "counters": dict(mon.counters),
        "max": mon.max,
        "violations": mon.violations,
        "n_violations": mon.n_violations,
        "samples": mon.samples,
        "sigs": sorted(mon.sigs),
        "errors": mon.errors,
        "lines": probe.result(),
        "data": mon.data,
        "known_seen": mon.known_seen,
        "hashseed": os.environ.get("PYTHONHASHSEED"),
        "wall_s": time.time() - t0,
    }
    with open(out, "w") as f:
        json.dump(res, f)
    return 0


# ---------------------------------------------------------------------------
# parent


def _run_shard(prop_id, tier, seed, shard, nshards, workdir, timeout, replay=None, hashseed="0"):
    out = os.path.join(workdir, f"{prop_id}-{shard}.json")
    cmd = [env.PY, "-m", "vlib.worker", prop_id, tier, str(seed), str(shard), str(nshards), out]
    if replay:
        cmd.append(replay)
    e = dict(os.environ)
    e["PYTHONHASHSEED"] = hashseed
    if shard % 4 == 1 and "VERIF_LOGGING" not in e:
        e["VERIF_LOGGING"] = "default"       # every fourth worker runs with the package's default DEBUG logging
    e["VERIF_REPO"] = env.REPO
    e["NO_PROXY"] = "*"
    e["no_proxy"] = "*"
    e.setdefault("OMP_NUM_THREADS", "1")
    e.setdefault("OPENBLAS_NUM_THREADS", "1")
    e["PYTHONPATH"] = env.VERIF_DIR
    try:
        p = subprocess.run(cmd, cwd=env.VERIF_DIR, env=e, timeout=timeout,
                           stdout=subprocess.PIPE, stderr=subprocess.PIPE)
    except subprocess.TimeoutExpired:
        return {"shard": shard, "inconclusive": f"watchdog fired after {timeout}s"}
    if p.returncode != 0 or not os.path.exists(out):
        tail = (p.stderr or b"")[-1500:].decode("utf8", "replace")
        return {"shard": shard, "inconclusive": f"worker exit {p.returncode}: {tail}"}
    try:
        with open(out) as f:
            res = json.load(f)
    finally:
        try:
            os.remove(out)
        except OSError:
            pass
    return res


def main(argv):
    import argparse
    from . import findings
    ap = argparse.ArgumentParser(prog="check")
    ap.add_argument("prop")
    ap.add_argument("--tier", default=os.environ.get("VERIF_TIER", "quick"), choices=["quick", "thorough"])
    ap.add_argument("--replay")
    ap.add_argument("--shards", type=int)
    ap.add_argument("--jobs", type=int, default=int(os.environ.get("VERIF_JOBS", "16")))
    args = ap.parse_args(argv)
    prop_id = args.prop.upper()
    tier = args.tier
    try:
        seed = int(os.environ.get("VERIF_SEED", "0"))
    except ValueError:
        seed = stable_seed(os.environ.get("VERIF_SEED")) % (2 ** 31)
    mod = load_prop(prop_id)
    t0 = time.time()
    workdir = os.path.join(env.VERIF_DIR, ".work", f"{prop_id}-{os.getpid()}")
    os.makedirs(workdir, exist_ok=True)
    os.makedirs(os.path.join(env.VERIF_DIR, "evidence"), exist_ok=True)
    os.makedirs(os.path.join(env.VERIF_DIR, "replays"), exist_ok=True)
    timeout = getattr(mod, "TIMEOUT", {}).get(tier, 900 if tier == "quick" else 5400)

    if args.replay:
        res = _run_shard(prop_id, tier, seed, 0, 1, workdir, timeout, replay=os.path.abspath(args.replay))
        _cleanup(workdir)
        if "inconclusive" in res or res.get("errors"):
            print(f"INCONCLUSIVE property={prop_id} reason={res.get('inconclusive') or res['errors'][0][:300]}")
            return 2
        if res["n_violations"]:
            for v in res["violations"]:
                print(f"  {v['kind']}: {v['msg']}")
            print(f"VIOLATION property={prop_id} replay={os.path.abspath(args.replay)}")
            return 1
        print(f"replay of {args.replay}: no violation")
        return 0

    nshards = args.shards or getattr(mod, "NSHARDS", {}).get(tier, 16)
    hashseeds = getattr(mod, "HASHSEEDS", None)
    with ThreadPoolExecutor(max_workers=max(1, args.jobs)) as pool:
        futs = [pool.submit(_run_shard, prop_id, tier, seed, sh, nshards, workdir, timeout, None,
                            (hashseeds[sh % len(hashseeds)] if hashseeds else "0"))
                for sh in range(nshards)]
        results = [f.result() for f in futs]
    _cleanup(workdir)

    counters = Counter()
    maxima = {}
    violations, samples, sigs, errors, inconcl = [], [], set(), [], []
    evaluations = 0
    n_viol = 0
    lines = {}
    for r in results:
        if "inconclusive" in r:
            inconcl.append(f"shard {r['shard']}: {r['inconclusive']}")
            continue
        evaluations += r["evaluations"]
        counters.update(r["counters"])
        for k, v in r.get("max", {}).items():
            if v > maxima.get(k, float("-inf")):
                maxima[k] = v
        violations.extend(r["violations"])
        n_viol += r["n_violations"]
        samples.extend(r["samples"])
        sigs.update(r["sigs"])
        errors.extend(r["errors"])
        for f, ls in r.get("lines", {}).items():
            lines.setdefault(f, set()).update(ls)

    # post-merge hook: properties that compare shards with each other (C07)
    if hasattr(mod, "merge"):
        extra = mod.merge(results, tier, seed)
        for v in extra.get("violations", []):
            violations.append(v)
            n_viol += 1
        counters.update(extra.get("counters", {}))

    # classify against the committed known findings
    known = findings.load()
    seen_known = {}
    for r in results:
        for fid, v in (r.get("known_seen") or {}).items():
            seen_known.setdefault(fid, v)
    unknown = []
    for v in violations:
        name = findings.classify(prop_id, v, known)
        if name:
            seen_known.setdefault(name, v)
        else:
            unknown.append(v)
    # violations beyond those kept in full are only counted; they are "unknown" unless
    # every kept one of their kind was known (conservative: report if any kind is not)
    kinds_known = {v["kind"] for v in violations if findings.classify(prop_id, v, known)}
    kinds_unknown = {v["kind"] for v in unknown}
    for k, n in counters.items():
        if k.startswith("violations:"):
            kind = k.split(":", 1)[1]
            if kind not in kinds_known and kind not in kinds_unknown and n > 0:
                kinds_unknown.add(kind)
                unknown.append({"property": prop_id, "kind": kind, "msg": "violation counted but not kept in full",
                                "detail": {}, "case": None})

    require = getattr(mod, "REQUIRE", {})
    if isinstance(require, dict) and tier in require and isinstance(require[tier], dict):
        require = require[tier]
    missing = {k: (counters.get(k, 0), m) for k, m in require.items() if counters.get(k, 0) < m}
    # cases without a verdict (problems under the default resolution of float-boundary decisions and too many
    # alternatives to enumerate) must stay a small share, otherwise the run as a whole is inconclusive
    skipped = counters.get("skipped_too_ambiguous", 0)
    if skipped > max(5, 0.02 * max(1, evaluations)):
        missing["cases_with_verdict"] = (evaluations - skipped, evaluations - int(0.02 * evaluations))

    anchors = {}
    for f in getattr(mod, "ANCHORS", []):
        if f.endswith(".py"):
            tot = executable_lines(os.path.join(env.REPO, f))
            cov = lines.get(f, set()) & tot if tot else lines.get(f, set())
            anchors[f] = {"covered": len(cov), "executable": len(tot), "never_executed_lines": sorted(tot - cov)[:80]}

    wall = time.time() - t0
    level = getattr(mod, "LEVEL", "exploration")
    coverage = {
        "evaluations": evaluations,
        "distinct_nontrivial": len(sigs),
        "rule": mod.RULE,
        "samples": samples[:MAX_SAMPLES] or [{"note": "no non-trivial case was observed"}],
        "events": {k: v for k, v in sorted(counters.items())},
        "maxima": maxima,
        "required_events": {k: {"observed": counters.get(k, 0), "minimum": m} for k, m in require.items()},
        "anchor_line_coverage": anchors,
        "shards": nshards,
        "inconclusive_shards": inconcl,
        "harness_errors": errors[:5],
        "known_findings_seen": sorted(seen_known),
        "exhaustive_components": getattr(mod, "EXHAUSTIVE", {}).get(tier, []),
        "repo": env.REPO,
    }
    if getattr(mod, "EXHAUSTIVE_ALL", {}).get(tier):
        coverage["exhaustive"] = True
    evidence = {
        "property_id": prop_id,
        "tier": tier,
        "seed": seed,
        "level": level,
        "coverage": coverage,
        "assumptions": list(getattr(mod, "ASSUMPTIONS", [])),
        "wall_s": round(wall, 2),
        "violations": len(unknown),
    }
    evdir = os.path.join(env.VERIF_DIR, "evidence")
    if env.REPO != "/repo" or os.environ.get("VERIF_NO_EVIDENCE"):
        # runs against a scratch copy (mutants, pinned tree) never touch the committed evidence
        evdir = os.path.join(env.VERIF_DIR, ".work", "evidence-alt")
        os.makedirs(evdir, exist_ok=True)
    with open(os.path.join(evdir, f"{prop_id}.json"), "w") as f:
        json.dump(evidence, f, indent=1, sort_keys=True)

    print(f"{prop_id} tier={tier} seed={seed} shards={nshards} cases={evaluations} "
          f"nontrivial={len(sigs)} wall={wall:.1f}s")
    interesting = {k: v for k, v in counters.items() if not k.startswith("violations:")}
    print("  events: " + ", ".join(f"{k}={v}" for k, v in sorted(interesting.items())[:60]))
    for name, v in sorted(seen_known.items()):
        print(f"KNOWN-FINDING: property={prop_id} {findings.describe(name, known)}")
    rc = 0
    if unknown:
        rc = 1
        done = set()
        for v in unknown:
            if v["kind"] in done:
                continue
            done.add(v["kind"])
            path = os.path.join(env.VERIF_DIR, "replays", f"{prop_id}-{case_hash(v)}.json")
            with open(path, "w") as f:
                json.dump(v, f, indent=1)
            print(f"  [{v['kind']}] {v['msg'][:600]}")
            print(f"VIOLATION property={prop_id} replay={path}")
    if rc == 0 and (inconcl or errors or missing):
        reason = "; ".join(inconcl[:2] + [e[:300] for e in errors[:2]] +
                           [f"{k} observed {a} < required {b}" for k, (a, b) in missing.items()])
        print(f"INCONCLUSIVE property={prop_id} reason={reason[:1500]}")
        rc = 2
    if rc == 0:
        print(f"HELD property={prop_id} on everything explored")
    return rc


def _cleanup(workdir):
    import shutil
    shutil.rmtree(workdir, ignore_errors=True)
    parent = os.path.dirname(workdir)
    try:
        if not os.listdir(parent):
            os.rmdir(parent)
    except OSError:
        pass
