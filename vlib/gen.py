"""Workload generators.  Everything produced here is plain JSON-able data (a "case"),
so that a case can be written to a replay file and executed again verbatim."""
import math

from .model import LAWS, DISK_GB_PER_S

PRIOS = ("QUERY", "INTERACTIVE", "BATCH_PIPELINE")
TPS_CLASSES = (1, 2, 3, 5, 7, 10, 20, 60, 100, 1000, 10000, 100000)


# --------------------------------------------------------------------------- G1 DAG shapes


def all_dags(n):
    """Every DAG on n nodes in insertion order: every choice of a parent subset among
    the earlier nodes.  Yields lists of parent-index lists."""
    if n == 0:
        yield []
        return

    def rec(k, acc):
        if k == n:
            yield [list(p) for p in acc]
            return
        for mask in range(1 << k):
            acc.append([i for i in range(k) if mask >> i & 1])
            yield from rec(k + 1, acc)
            acc.pop()

    yield from rec(0, [])


def dag_from_index(n, idx):
    """The idx-th DAG on n nodes (same order as all_dags)."""
    parents = []
    # node k has 2^k choices; mixed radix, last node fastest
    radices = [1 << k for k in range(n)]
    digits = []
    for r in reversed(radices):
        digits.append(idx % r)
        idx //= r
    digits.reverse()
    for k, mask in enumerate(digits):
        parents.append([i for i in range(k) if mask >> i & 1])
    return parents


def count_dags(n):
    return 1 << (n * (n - 1) // 2)


def random_dag(rng, n, shape=None):
    shape = shape or rng.choice(["chain", "chain", "diamond", "fan_out", "fan_in", "multi_root", "random", "random", "layers"])
    if n == 1:
        return [[]]
    if shape == "chain":
        return [[]] + [[i - 1] for i in range(1, n)]
    if shape == "fan_out":
        return [[]] + [[0] for _ in range(1, n)]
    if shape == "fan_in":
        # joins of any width (every root is a parent), sometimes only the last few
        return [[] for _ in range(n - 1)] + [list(range(n - 1))[-4:] if (n > 5 and rng.random() < 0.5) else list(range(n - 1))]
    if shape == "diamond":
        if n < 4:
            return random_dag(rng, n, "chain")
        mid = list(range(1, n - 1))
        return [[]] + [[0] for _ in mid] + [mid[-4:] if rng.random() < 0.5 else mid]
    if shape == "multi_root":
        roots = rng.randint(2, max(2, n // 2))
        out = [[] for _ in range(min(roots, n))]
        for k in range(len(out), n):
            out.append(sorted(rng.sample(range(k), rng.randint(1, min(3, k)))))
        return out
    if shape == "layers":
        out = []
        layer_start = 0
        k = 0
        prev_layer = []
        while k < n:
            width = rng.randint(1, 3)
            this = []
            for _ in range(width):
                if k >= n:
                    break
                out.append(sorted(rng.sample(prev_layer, rng.randint(1, len(prev_layer)))) if prev_layer else [])
                this.append(k)
                k += 1
            prev_layer = this
        return out
    out = [[]]
    for k in range(1, n):
        m = rng.randint(0, min(4, k)) if rng.random() < 0.9 else rng.randint(0, k)
        out.append(sorted(rng.sample(range(k), m)))
    return out


# --------------------------------------------------------------------------- G2 segments


def inv_law(law, cpus, secs):
    """baseline seconds such that the law yields `secs` on `cpus` CPUs."""
    c = float(cpus)
    if law == "const":
        return secs
    if law == "linear3":
        return secs * min(c, 3.0)
    if law == "linear7":
        return secs * min(c, 7.0)
    if law == "squared":
        return secs * c * c
    if law == "exp":
        return secs * (2.0 ** c if c < 4 else 16.0)
    if law == "log":
        return secs * (math.log(c) + 1.0)
    if law == "sqrt":
        return secs * math.sqrt(c)
    raise ValueError(law)


def duration_ticks(rng, mode, maxn=12):
    """A duration expressed in ticks: (value, class).  mode 'safe' keeps clear of tick
    boundaries; 'edgy' seeks them."""
    n = rng.choice([0, 0, 1, 1, 2, 3, 5, 8, maxn])
    if mode == "safe":
        return n + rng.uniform(0.25, 0.75), "safe"
    cls = rng.choice(["safe", "safe", "exact", "below", "above", "zero", "subtick"])
    if cls == "safe":
        return n + rng.uniform(0.05, 0.95), cls
    if cls == "exact":
        return float(n), cls
    if cls == "below":
        return max(0.0, n - rng.choice([1e-12, 1e-10, 1e-7])), cls
    if cls == "above":
        return n + rng.choice([1e-12, 1e-10, 1e-7]), cls
    if cls == "zero":
        return 0.0, cls
    return rng.uniform(0.0, 0.999), cls


def make_seg(rng, tps, cpus, mode="safe", mem_ref=None, maxn=12, laws=LAWS):
    """One segment whose I/O and CPU phases have the drawn tick lengths on `cpus` CPUs."""
    law = rng.choice(laws)
    io_t, io_cls = duration_ticks(rng, mode, maxn)
    cpu_t, cpu_cls = duration_ticks(rng, mode, maxn)
    if rng.random() < 0.3:
        io_t, io_cls = 0.0, "zero"
    read = DISK_GB_PER_S * io_t / tps
    base = inv_law(law, cpus, cpu_t / tps)
    memcls = rng.choice(["none", "none", "none", "fixed", "fixed", "zero"])
    if memcls == "none":
        mem = None
    elif memcls == "zero":
        mem = 0.0
    else:
        ref = mem_ref if mem_ref else max(read, 1.0)
        mem = ref * rng.choice([0.01, 0.3, 0.9, 1.0, 1.1, 3.0])
    return {"cpu": base, "law": law, "mem": mem, "read": read,
            "_cls": f"{io_cls}/{cpu_cls}/{memcls}/{law}"}


def seg_peak(seg):
    return seg["mem"] if seg["mem"] is not None else seg["read"]


def ops_peak(ops):
    return max((seg_peak(s) for op in ops for s in op["segs"]), default=0.0)


PROTOTYPES = [
    # (cpu seconds, law, read GB) in order from most I/O-heavy to most CPU-heavy
    (1, "const", 55), (2, "sqrt", 55), (5, "linear3", 45), (15, "linear3", 37.5),
    (20, "linear7", 30), (40, "linear7", 20), (80, "squared", 10),
]
QUERY_PROTOTYPE = (15, "linear3", 35)


def simple_pipeline(rng, pid, tps, nops=None, prio=None, shape=None, mode="safe", cpus_hint=4,
                    mem_ref=None, maxn=8, nseg_max=2, laws=LAWS):
    if nops is None:
        # mostly small; now and then wide or deep (joins with many parents, many roots, long chains)
        nops = rng.choice([1, 1, 2, 2, 3, 4, 5, 6]) if rng.random() < 0.93 else rng.choice([9, 12, 17, 24])
    if nops > 6 and nseg_max == 2 and rng.random() < 0.3:
        nseg_max = 5
    parents = random_dag(rng, nops, shape)
    ops = []
    for k in range(nops):
        nseg = 1 if rng.random() < 0.7 else rng.randint(1, nseg_max)
        ops.append({"parents": parents[k],
                    "segs": [make_seg(rng, tps, cpus_hint, mode, mem_ref, maxn, laws) for _ in range(nseg)]})
    return {"pid": pid, "prio": prio or rng.choice(PRIOS), "ops": ops}


def strip(case):
    """Drop generator annotations (keys starting with '_') before handing data to the system."""
    if isinstance(case, dict):
        return {k: strip(v) for k, v in case.items() if not k.startswith("_")}
    if isinstance(case, list):
        return [strip(v) for v in case]
    return case


# --------------------------------------------------------------------------- G3 configurations


def pick_tps(rng, small=False):
    if small:
        return rng.choice([1, 2, 3, 5, 7, 10, 20, 60, 100])
    r = rng.random()
    if r < 0.8:
        return rng.choice(TPS_CLASSES)
    return rng.randint(1, 100000)


PROB_TRIPLES = [
    (0.3, 0.1, 0.6), (1.0, 0.0, 0.0), (0.0, 1.0, 0.0), (0.0, 0.0, 1.0), (0.5, 0.5, 0.0),
    (0.6, 0.3, 0.1), (0.1, 0.2, 0.7), (0.7, 0.2, 0.1), (0.25, 0.25, 0.5), (0.0, 0.25, 0.75),
    (0.34, 0.33, 0.33), (0.15, 0.15, 0.7), (0.8, 0.1, 0.1), (0.2, 0.7, 0.1),
]  # (interactive, query, batch)
