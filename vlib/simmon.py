"""Monitors for the SIM driver.  Each observes the boundaries recorded by simworld.Harness
and reports problems tagged with the property they refute."""
import math

from . import sut
from .simworld import Monitor
from .model import ALLOWED, ASSIGNABLE, Seg, container_ticks, check_pool_kills, near, percentile, mean, feq

PRIO_RANK = {"QUERY": 1, "INTERACTIVE": 2, "BATCH_PIPELINE": 3}


def ready(op):
    return all(sut.state_of(p) == "completed" for p in op.parents)


# =========================================================================== C01 / C02


class LifecycleMon(Monitor):
    """M1 in lock-step with every transition request (P1 log listener), the dependency
    clause at the moment of every ->RUNNING, log-replayed states vs polled states
    (a bypass of the transition API shows here), container membership."""

    def __init__(self, poll_every=25):
        self.shadow = {}
        self.touched = set()
        self.assigned_since = set()
        self.poll_every = poll_every
        self.n_events = 0
        self.n_running_with_parents = 0
        self.n_refused = 0
        self.nfail = {}            # id(op) -> accepted ->FAILED count     (evidence: multi-step life cycles)
        self.nsusp = {}            # id(op) -> accepted ->SUSPENDING count

    def begin(self, h):
        h.log.listeners.append(lambda ev, rs, before: self.on_transition(h, ev, rs, before))

    def on_transition(self, h, ev, rs, before):
        seq, op, frm, to, ok, msg = ev
        self.n_events += 1
        known0 = self.shadow.get(id(op), "pending")
        if known0 != frm and frm is not None:
            # the state the request started from is not the state the log left the operator in
            h.problem(("C02",), "state-bypass", f"operator of {op.pipeline.pipeline_id} was {frm} at a transition request ({'accepted' if ok else 'refused'} -> {to}) "
                                                f"but the transition log says {known0}: its state changed without a request")
            self.shadow[id(op)] = frm
        if ok:
            if (frm, to) not in ALLOWED:
                h.problem(("C02",), "illegal-transition", f"accepted transition {frm}->{to} of an operator of {op.pipeline.pipeline_id}")
            if frm == "completed":
                h.problem(("C02",), "completed-changed", f"a completed operator moved to {to}")
            self.shadow[id(op)] = to
            self.touched.add(op)
            if to == "assigned":
                self.assigned_since.add(id(op))
            elif to == "failed":
                self.nfail[id(op)] = self.nfail.get(id(op), 0) + 1
                if id(op) in self.nsusp:
                    h.ev("lifecycle:operator_failed_after_a_resume")
            elif to == "suspending":
                self.nsusp[id(op)] = self.nsusp.get(id(op), 0) + 1
                if id(op) in self.nfail:
                    h.ev("lifecycle:operator_suspended_after_a_retry")
            elif to == "completed":
                f, u = self.nfail.pop(id(op), 0), self.nsusp.pop(id(op), 0)
                if f >= 2:
                    h.ev("lifecycle:operator_completed_after_two_or_more_failures")
                if u >= 2:
                    h.ev("lifecycle:operator_completed_after_two_or_more_suspensions")
                if f and u:
                    h.ev("lifecycle:operator_completed_after_failure_and_suspension")
            if to == "running":
                if op.parents:
                    self.n_running_with_parents += 1
                for par in op.parents:
                    if rs.operator_states[par].value != "completed":
                        h.problem(("C01",), "started-before-parent",
                                  f"operator of {op.pipeline.pipeline_id} entered RUNNING while a parent is {rs.operator_states[par].value}")
                        break
            h.ev("transition:%s->%s" % (frm, to))
        else:
            self.n_refused += 1
            h.ev("transition_refused")
            if before is not None:
                st, cnt = before
                if st != rs.operator_states or cnt != rs.state_counts:
                    h.problem(("C02",), "refusal-changed-state", f"refused request {frm}->{to} changed states or counts")

    def poll(self, h, full):
        ops = []
        if full:
            for p in h.pipelines:
                ops.extend(p.runtime_status().operator_states.keys())
        else:
            ops = list(self.touched)
        self.touched.clear()
        for op in ops:
            real = sut.state_of(op)
            want = self.shadow.get(id(op), "pending")
            if real != want:
                h.problem(("C02",), "state-bypass", f"operator of {op.pipeline.pipeline_id} is {real}, transition log says {want}")
                self.shadow[id(op)] = real
            if real in ("running", "completed"):
                for par in op.parents:
                    if sut.state_of(par) != "completed":
                        h.problem(("C01",), "running-with-unfinished-parent",
                                  f"operator of {op.pipeline.pipeline_id} is {real} while a parent is {sut.state_of(par)}")
                        break
        if full:
            for p in h.pipelines:
                rs = p.runtime_status()
                hist = {}
                for st in rs.operator_states.values():
                    hist[st] = hist.get(st, 0) + 1
                for st, n in rs.state_counts.items():
                    if hist.get(st, 0) != n:
                        h.problem(("C02", "C06"), "counts-mismatch", f"pipeline {p.pipeline_id}: count[{st.value}]={n}, actual {hist.get(st, 0)}")
                        break
            h.ev("full_state_polls")

    def sched_post(self, h, t, s, sus, asg):
        self.poll(h, False)

    def exec_post(self, h, t, results):
        self.poll(h, t % self.poll_every == 0)
        # membership: an operator belongs to at most one live container
        seen = {}
        for pool in h.ex.pools:
            for c in list(pool.active_containers) + list(pool.suspending_containers):
                for op in c.operators:
                    if id(op) in seen and seen[id(op)] != c.container_id:
                        st = sut.state_of(op)
                        if st != "completed":
                            h.problem(("C02",), "op-in-two-containers",
                                      f"operator ({st}) belongs to live containers {seen[id(op)]} and {c.container_id}")
                    seen[id(op)] = c.container_id
        for ci in h.conts.values():
            if ci.born == t:
                for op in ci.ops:
                    if id(op) not in self.assigned_since:
                        h.problem(("C02",), "container-op-not-assigned", f"container {ci.cid} holds an operator that was not moved to ASSIGNED for it")
        self.assigned_since.clear()

    def end(self, h, stats):
        self.poll(h, True)
        h.ev("running_events_with_parents", self.n_running_with_parents)


# =========================================================================== C03


class ConservationMon(Monitor):
    def __init__(self):
        self.live = {}

    def exec_post(self, h, t, results):
        tol = 1e-9
        oc = bool(h.params.get("allow_memory_overcommit"))
        for pool in h.ex.pools:
            k = pool.pool_id
            held = list(pool.active_containers) + list(pool.suspending_containers)
            hc = sum(c.assignment.cpu for c in held)
            hr = sum(c.assignment.ram for c in held)
            if abs(pool.avail_cpu_pool + hc - pool.max_cpu_pool) > tol * max(1, pool.max_cpu_pool):
                h.problem(("C03",), "conservation-cpu", f"pool {k}: free {pool.avail_cpu_pool} + held {hc} != {pool.max_cpu_pool}")
            if abs(pool.avail_ram_pool + hr - pool.max_ram_pool) > tol * max(1, pool.max_ram_pool):
                h.problem(("C03",), "conservation-ram", f"pool {k}: free {pool.avail_ram_pool} + held {hr} != {pool.max_ram_pool}")
            if pool.avail_cpu_pool < -tol:
                h.problem(("C03",), "negative-free-cpu", f"pool {k}: free cpu {pool.avail_cpu_pool}")
            if not oc and pool.avail_ram_pool < -tol * max(1, pool.max_ram_pool):
                h.problem(("C03",), "negative-free-ram", f"pool {k}: free ram {pool.avail_ram_pool}")
            # independent ledger from decisions and observed endings
            lc = sum(ci.cpu for ci in h.live.values() if ci.pool == k)
            lr = sum(ci.ram for ci in h.live.values() if ci.pool == k)
            if abs(pool.avail_cpu_pool - (pool.max_cpu_pool - lc)) > tol * max(1, pool.max_cpu_pool):
                h.problem(("C03",), "ledger-cpu", f"pool {k}: free cpu {pool.avail_cpu_pool}, ledger {pool.max_cpu_pool - lc}")
            if abs(pool.avail_ram_pool - (pool.max_ram_pool - lr)) > tol * max(1, pool.max_ram_pool):
                h.problem(("C03",), "ledger-ram", f"pool {k}: free ram {pool.avail_ram_pool}, ledger {pool.max_ram_pool - lr}")
        h.ev("sim_ticks_checked")
        for r in results:
            h.ev("sim_release_by_failure" if r.error is not None else "sim_release_by_completion")


# =========================================================================== C04 / C11 (end to end)


MAX_MODEL_TICKS = 20000


def model_ticks_for(ops, cpu, tps):
    est = 0.0
    for op in ops:
        for sg in op.get_segments():
            est += (sg.storage_read_gb / 20.0 + sg.baseline_cpu_seconds) * tps
    if est > MAX_MODEL_TICKS:
        return [], 99
    segs = [[Seg(s.baseline_cpu_seconds, _law_name(s), s.memory_gb, s.storage_read_gb) for s in op.get_segments()] for op in ops]
    return container_ticks(segs, cpu, tps)


_LAW_CACHE = {}


def _law_name(seg):
    f = seg.scaling_func
    if f not in _LAW_CACHE:
        from eudoxia.workload.pipeline import Segment
        for name, fn in Segment.SCALING_FUNCS.items():
            _LAW_CACHE[fn] = name
    return _LAW_CACHE.get(f, "const")


class MemoryMon(Monitor):
    """Limits after every tick, truthful reported usage, and justification of every kill
    by the independent demand model (M3 per container, M5 for the pool-level step)."""

    def __init__(self):
        self.models = {}

    def exec_post(self, h, t, results):
        tps = h.params["ticks_per_second"]
        oc = bool(h.params.get("allow_memory_overcommit"))
        failed = {}
        okd = set()
        for r in results:
            if r.error is not None:
                failed.setdefault(r.pool_id, set()).add(r.container_id)
            else:
                okd.add(r.container_id)
        for pool in h.ex.pools:
            k = pool.pool_id
            total = 0.0
            for c in pool.active_containers:
                u = c.get_current_memory_usage()
                total += u
                if u > c.assignment.ram and not near(u, c.assignment.ram):
                    h.problem(("C04",), "over-allocation", f"container {c.container_id} uses {u} > allocation {c.assignment.ram} after the tick")
            if total > pool.max_ram_pool and not near(total, pool.max_ram_pool):
                h.problem(("C04", "C11"), "pool-over-capacity", f"pool {k}: running containers use {total} > capacity {pool.max_ram_pool}")
            rep = pool.get_consumed_ram_gb()
            if abs(rep - total) > 1e-6:
                h.problem(("C04",), "reported-usage", f"pool {k}: reports {rep} GB, running containers use {total} GB (tick {t})")
            if not pool.active_containers:
                h.ev("ticks_with_empty_pool")
            # kill justification for this pool
            conts = []
            skip = False
            involved = [ci for ci in h.live.values() if ci.pool == k and ci.status == "active"] + \
                       [h.conts[r.container_id] for r in results if r.pool_id == k and r.container_id in h.conts]
            for ci in involved:
                m = self.models.get(ci.cid)
                if m is None:
                    ticks, namb = model_ticks_for(ci.ops, ci.cpu, tps)
                    m = self.models[ci.cid] = (ticks, namb)
                ticks, namb = m
                if namb or ci.j < 1 or ci.j > len(ticks):
                    skip = True
                    break
                tk = ticks[ci.j - 1]
                fin = ci.status == "ok"
                ent = {"id": ci.cid, "demand": 0.0 if fin else tk.demand, "alloc": ci.ram, "finished": fin, "tick": tk}
                if tk.exact and not fin:
                    ent["over"] = tk.demand > ci.ram
                conts.append(ent)
                if ci.status == "active" and ci.real is not None:
                    u = ci.real.get_current_memory_usage()
                    if abs(u - tk.demand) > 1e-6 and not (tk.alts and any(abs(u - a) <= 1e-6 for a in tk.alts)):
                        h.problem(("C04", "C05"), "usage-vs-model", f"container {ci.cid} tick {ci.j}: uses {u}, model {tk.demand}")
            if k in failed or (oc and conts):
                if skip:
                    h.ev("kill_ticks_skipped_ambiguous")
                else:
                    probs = check_pool_kills(conts, pool.max_ram_pool, oc, failed.get(k, set()))
                    for kind, msg in probs:
                        tags = {"finished-killed": ("C11",), "missed-individual": ("C04", "C05"), "unknown-victim": ("C09",),
                                "kill-without-overcommit": ("C04",), "needless-kill": ("C04", "C11"),
                                "zero-usage-victim": ("C11",), "order": ("C11",), "overkill": ("C11",),
                                "over-capacity": ("C04", "C11")}[kind]
                        h.problem(tags, "oom-" + kind, f"pool {k} tick {t}: {msg}")
                    if k in failed:
                        h.ev("sim_kill_ticks_judged")
                        ind = [c for c in conts if c["id"] in failed[k] and c["demand"] > c["alloc"]]
                        h.ev("sim_kills_individual", len(ind))
                        h.ev("sim_kills_pool_level", len(failed[k]) - len(ind))
        for cid in [c for c in self.models if c not in h.live]:
            self.models.pop(cid, None)


# =========================================================================== C09 (in simulations)


class LedgerMon(Monitor):
    def __init__(self):
        self.n_assign = 0
        self.outcomes = {}

    def sched_post(self, h, t, s, sus, asg):
        self.n_assign += len(asg)

    def exec_post(self, h, t, results):
        for msg in h.tracker_problems:
            h.problem(("C09",), "container-tracking", msg)
        h.tracker_problems.clear()
        for r in results:
            self.outcomes[r.container_id] = self.outcomes.get(r.container_id, 0) + 1
            if self.outcomes[r.container_id] > 1:
                h.problem(("C09",), "result-repeated", f"container {r.container_id} reported {self.outcomes[r.container_id]} times")
            st = sut.states_of(r.ops)
            if r.error is None:
                if any(x != "completed" for x in st):
                    h.problem(("C09",), "success-with-unfinished", f"success result with operator states {st}")
            else:
                i = 0
                while i < len(st) and st[i] == "completed":
                    i += 1
                if i == len(st) or any(x != "failed" for x in st[i:]):
                    # a later container may already have re-run nothing within the same tick, so states are final here
                    h.problem(("C09",), "failure-pattern", f"failure result with operator states {st}")
        live = sum(len(p.active_containers) + len(p.suspending_containers) for p in h.ex.pools)
        susp = sum(len(p.suspended_containers) for p in h.ex.pools)
        ok = h.n_ok
        bad = h.n_failed
        if self.n_assign != ok + bad + susp + live:
            h.problem(("C09",), "identity", f"tick {t}: assignments {self.n_assign} != ok {ok} + failed {bad} + suspended {susp} + live {live}")
        if h.ex.num_completed() != ok:
            h.problem(("C09", "C06"), "completed-count", f"executor counts {h.ex.num_completed()} successes, results show {ok}")


# =========================================================================== C06


class StatsMon(Monitor):
    """M7: recount of every returned statistic from the recorded boundary events."""

    def __init__(self, uncontended=False):
        self.arr = {"QUERY": 0, "INTERACTIVE": 0, "BATCH_PIPELINE": 0}
        self.lat = {"QUERY": [], "INTERACTIVE": [], "BATCH_PIPELINE": []}
        self.outstanding = []
        self.finish = {}
        self.n_asg = 0
        self.n_sus = 0
        self.n_fail = 0
        self.errs = {}
        self.n_ok = 0
        self.tick_times_all = []
        self.tick_times_ok = []
        self.uncontended = uncontended
        self.had_results_tick = set()

    def begin(self, h):
        self.ncomp = {}
        self.nops = {}
        self.just_done = []

        def on_tr(ev, rs, before):
            seq, op, frm, to, ok, msg = ev
            if ok and to == "completed":
                pid = id(op.pipeline)
                self.ncomp[pid] = self.ncomp.get(pid, 0) + 1
                if self.ncomp[pid] == len(rs.operator_states):
                    self.just_done.append(op.pipeline)

        h.log.listeners.append(on_tr)

    def arrivals(self, h, t, ps):
        for p in ps:
            self.arr[p.priority.name] += 1

    def sched_post(self, h, t, s, sus, asg):
        self.n_asg += len(asg)
        self.n_sus += len(sus)

    def exec_post(self, h, t, results):
        for r in results:
            ci = h.conts.get(r.container_id)
            if r.error is not None:
                self.n_fail += 1
                self.errs[r.error] = self.errs.get(r.error, 0) + 1
            else:
                self.n_ok += 1
            if ci is not None:
                self.tick_times_all.append(ci.j)
                if r.error is None:
                    self.tick_times_ok.append(ci.j)
        for p in self.just_done:
            if id(p) in self.finish:
                h.problem(("C06", "C02"), "completed-twice", f"pipeline {p.pipeline_id} reached 'all operators completed' twice")
                continue
            if id(p) not in h.arrival_tick:
                continue
            if any(st.value != "completed" for st in p.runtime_status().operator_states.values()):
                h.problem(("C02", "C06"), "completion-undone", f"pipeline {p.pipeline_id}: completion events counted but an operator is not completed")
                continue
            self.finish[id(p)] = t
            self.lat[p.priority.name].append(t - h.arrival_tick[id(p)])
            if not results:
                h.ev("completion_in_tick_without_result")
        self.just_done = []

    def end(self, h, stats):
        tps = h.params["ticks_per_second"]
        dur = h.params["duration"]

        def cmp(name, got, want):
            if isinstance(want, float) or isinstance(got, float):
                ok = feq(float(got), float(want))
            else:
                ok = got == want
            if not ok:
                h.problem(("C06",), "stat-" + name, f"{name}: returned {got!r}, recount {want!r}")
            h.ev("stat_fields_compared")

        all_arr = sum(self.arr.values())
        cmp("pipelines_created", stats.pipelines_created, all_arr)
        cmp("containers_completed", stats.containers_completed, self.n_ok)
        cmp("throughput", stats.throughput, self.n_ok / dur)
        cmp("assignments", stats.assignments, self.n_asg)
        cmp("suspensions", stats.suspensions, self.n_sus)
        cmp("failures", stats.failures, self.n_fail)
        if dict(stats.failure_error_counts) != self.errs:
            h.problem(("C06",), "stat-failure_error_counts", f"returned {dict(stats.failure_error_counts)}, recount {self.errs}")
        # container-level p99: the statement does not define it; accept either population
        a = percentile(self.tick_times_all, 99) / tps
        b = percentile(self.tick_times_ok, 99) / tps
        if not (feq(float(stats.p99_latency), a) or feq(float(stats.p99_latency), b)):
            h.problem(("C06",), "stat-p99_latency", f"p99_latency {stats.p99_latency}, recount {a} (all ended) / {b} (successful)")
        groups = [("pipelines_all", None), ("pipelines_query", "QUERY"), ("pipelines_interactive", "INTERACTIVE"),
                  ("pipelines_batch", "BATCH_PIPELINE")]
        for field, cls in groups:
            ps = getattr(stats, field)
            lats = sum(self.lat.values(), []) if cls is None else self.lat[cls]
            arr = all_arr if cls is None else self.arr[cls]
            cmp(field + ".arrival_count", ps.arrival_count, arr)
            cmp(field + ".completion_count", ps.completion_count, len(lats))
            cmp(field + ".mean_latency_seconds", float(ps.mean_latency_seconds), mean(lats) / tps if lats else float("nan"))
            cmp(field + ".p99_latency_seconds", float(ps.p99_latency_seconds), percentile(lats, 99) / tps if lats else float("nan"))
            if not lats:
                h.ev("empty_class_compared")
        if stats.pipelines_all.arrival_count != (stats.pipelines_query.arrival_count + stats.pipelines_interactive.arrival_count
                                                 + stats.pipelines_batch.arrival_count):
            h.problem(("C06",), "partition-arrivals", "per-class arrivals do not sum to the total")
        if stats.pipelines_all.completion_count != (stats.pipelines_query.completion_count + stats.pipelines_interactive.completion_count
                                                    + stats.pipelines_batch.completion_count):
            h.problem(("C06",), "partition-completions", "per-class completions do not sum to the total")
        # per pipeline: recorded arrival / finish ticks
        for p in h.pipelines:
            rs = p.runtime_status()
            ta = h.arrival_tick[id(p)]
            if rs.arrival_tick != ta:
                h.problem(("C06",), "arrival-tick", f"pipeline {p.pipeline_id}: recorded arrival {rs.arrival_tick}, delivered in tick {ta}")
            tf = self.finish.get(id(p))
            if rs.finish_tick != tf:
                h.problem(("C06",), "finish-tick", f"pipeline {p.pipeline_id}: recorded finish {rs.finish_tick}, last operator completed in tick {tf}")
            if tf is not None:
                h.ev("pipelines_completed_checked")
        h.ev("pipelines_arrived", all_arr)
        if self.n_ok + self.n_fail == 0:
            h.ev("runs_without_container_endings")
        if all_arr == 0:
            h.ev("runs_without_arrivals")
        if not self.finish:
            h.ev("runs_without_completions")
        if self.uncontended:
            self.check_uncontended(h, tps)

    def check_uncontended(self, h, tps):
        """A single pipeline alone in the system, never failed: latency = sum of model ticks - 1."""
        if len(h.pipelines) != 1 or self.n_fail or self.n_sus:
            return
        p = h.pipelines[0]
        tf = self.finish.get(id(p))
        if tf is None:
            return
        total = 0
        for ci in sorted(h.conts.values(), key=lambda c: c.born):
            ticks, namb = model_ticks_for(ci.ops, ci.cpu, tps)
            if namb:
                h.ev("uncontended_skipped_ambiguous")
                return
            total += len(ticks)
        # containers must have run back to back (chain) - true when each was born the tick after the previous ended
        cs = sorted(h.conts.values(), key=lambda c: c.born)
        for a, b in zip(cs, cs[1:]):
            if b.born != a.ended + 1:
                h.ev("uncontended_not_sequential")
                return
        lat = tf - h.arrival_tick[id(p)]
        if cs and cs[0].born != h.arrival_tick[id(p)]:
            h.problem(("C06", "C12", "C17"), "uncontended-start-delayed", f"first container born in tick {cs[0].born}, pipeline arrived in {h.arrival_tick[id(p)]}")
        if lat != total - 1:
            h.problem(("C06",), "uncontended-latency", f"uncontended pipeline: latency {lat} ticks, operators need {total} ticks (want {total - 1})")
        h.ev("uncontended_latency_checked")


# =========================================================================== policies


def waiting_ready_pending(p):
    out = []
    for op, st in p.runtime_status().operator_states.items():
        if st.value == "pending" and ready(op):
            out.append(op)
    return out


class NoSuspensionMon(Monitor):
    def __init__(self, tag):
        self.tag = tag

    def sched_post(self, h, t, s, sus, asg):
        if sus:
            h.problem((self.tag, "C12"), "suspension-by-other-policy", f"{h.algo} issued {len(sus)} suspension(s)")


class FifoMon(Monitor):
    """Pipelines of one class receive their first container in arrival order."""

    def __init__(self, tag, by_class=True):
        self.tag = tag
        self.by_class = by_class
        self.order = {}          # class -> pipelines in arrival order
        self.head = {}           # class -> index of the earliest pipeline without a first container
        self.pos = {}            # id(p) -> index in its class list
        self.first = set()

    def arrivals(self, h, t, ps):
        for p in ps:
            cls = p.priority.name if self.by_class else "*"
            lst = self.order.setdefault(cls, [])
            self.pos[id(p)] = len(lst)
            lst.append(p)

    def sched_post(self, h, t, s, sus, asg):
        newly = []
        newly_ids = set()
        for a in asg:
            p = a.ops[0].pipeline
            if id(p) not in self.first and id(p) not in newly_ids and id(p) in self.pos:
                newly.append(p)
                newly_ids.add(id(p))
        if not newly:
            return
        # containers of one round start in the same tick: judge the state after the round
        self.first |= newly_ids
        for p in newly:
            cls = p.priority.name if self.by_class else "*"
            lst = self.order[cls]
            i = self.head.get(cls, 0)
            while i < len(lst) and id(lst[i]) in self.first:
                i += 1
            self.head[cls] = i
            if i < self.pos[id(p)]:
                q = lst[i]
                h.problem((self.tag,), "fifo", f"tick {t}: pipeline {p.pipeline_id} got its first container before earlier pipeline "
                                               f"{q.pipeline_id}" + (" of the same class" if self.by_class else ""))
                break
            h.ev("first_containers")


class PriorityMon(Monitor):
    """C12 clauses (a) strict order, (c) work conservation / bounded progress, (d) preemption rules."""

    def __init__(self, pooled=False):
        self.pooled = pooled  # priority-pool: class -> fixed pool

    def usable(self, h, prio):
        if not self.pooled:
            return list(range(len(h.ex.pools)))
        return [0] if prio in ("QUERY", "INTERACTIVE") else [1]

    def sched_pre(self, h, t, s, results, pipelines):
        self.pre = [(p.avail_cpu_pool, p.avail_ram_pool) for p in h.ex.pools]
        self.cur_results = list(results)
        self.cur_new = list(pipelines)
        if not hasattr(self, "open"):
            self.open = []

    def sched_post(self, h, t, s, sus, asg):
        nsusp = sum(len(p.suspended_containers) for p in h.ex.pools)
        quiet = not (self.cur_results or self.cur_new or asg or sus or nsusp != getattr(self, "nsusp", 0))
        self.nsusp = nsusp
        if quiet:
            h.ev("quiet_rounds_skipped")
            return
        rem = [list(x) for x in self.pre]
        for a in asg:
            if 0 <= a.pool_id < len(rem):
                rem[a.pool_id][0] -= a.cpu
                rem[a.pool_id][1] -= a.ram
        waiting = {}   # prio -> [(pipeline, op)]
        n_wait_q_jobs = 0
        multi = bool(h.params.get("multi_operator_containers", True))
        self.open.extend(self.cur_new)
        if len(self.open) > 64 and t % 16 == 0:
            self.open = [p for p in self.open if not all(st.value == "completed" for st in p.runtime_status().operator_states.values())]
        for p in self.open:
            rs = p.runtime_status()
            if rs.state_counts[sut.OperatorState.PENDING] == 0 and rs.state_counts[sut.OperatorState.FAILED] == 0:
                continue
            ops = waiting_ready_pending(p)
            if ops:
                waiting.setdefault(p.priority.name, []).append((p, ops))
            if p.priority.name == "QUERY":
                assignable = [op for op, st in rs.operator_states.items() if st.value in ASSIGNABLE]
                if multi or self.pooled:
                    n_wait_q_jobs += 1 if assignable else 0
                else:
                    n_wait_q_jobs += sum(1 for op in assignable if ready(op))
        h.ev("rounds_checked")
        if waiting:
            h.ev("rounds_with_waiting_work")
        # (c) work conservation
        for prio, lst in waiting.items():
            for k in self.usable(h, prio):
                if rem[k][0] > 1e-9 and rem[k][1] > 1e-9:
                    p, ops = lst[0]
                    h.problem(("C12",), "work-conservation",
                              f"tick {t}: ready pending operator of {prio} pipeline {p.pipeline_id} left waiting although pool {k} "
                              f"still has {rem[k][0]} CPU / {rem[k][1]} GB free after the round")
                    break
            else:
                continue
            break
        # (a) strict priority order
        for a in asg:
            cls = a.ops[0].pipeline.priority.name
            for prio, lst in waiting.items():
                if PRIO_RANK[prio] < PRIO_RANK[cls]:
                    if self.pooled and a.pool_id not in self.usable(h, prio):
                        continue
                    h.problem(("C12",), "priority-order",
                              f"tick {t}: {cls} work assigned to pool {a.pool_id} while a ready pending operator of {prio} pipeline "
                              f"{lst[0][0].pipeline_id} is left waiting")
                    break
            else:
                continue
            break
        if any(PRIO_RANK[w] < 3 for w in waiting) and asg:
            h.ev("rounds_assigning_while_higher_or_equal_waits")
        # (d) preemption
        if sus:
            h.ev("rounds_with_suspensions")
            h.ev("suspensions", len(sus))
            if self.pooled:
                h.problem(("C12", "C16"), "suspension-by-other-policy", "priority-pool issued a suspension")
            if len(sus) > n_wait_q_jobs:
                h.problem(("C12",), "suspensions-exceed-waiting-queries",
                          f"tick {t}: {len(sus)} suspensions for {n_wait_q_jobs} waiting query job(s)")
            seen = set()
            for x in sus:
                ci = h.conts.get(x.container_id)
                if ci is None or ci.status != "active":
                    h.problem(("C12", "C08"), "suspend-not-running", f"suspension of container {x.container_id} which is not running")
                    continue
                if x.container_id in seen:
                    h.problem(("C12",), "suspend-duplicate", f"container {x.container_id} suspended twice in one round")
                seen.add(x.container_id)
                if ci.prio.name == "QUERY" or ci.ops[0].pipeline.priority.name == "QUERY":
                    h.problem(("C12",), "query-suspended", f"query container {x.container_id} suspended")
                if ci.real is not None and not ci.real.can_suspend_container():
                    h.problem(("C12", "C08"), "suspend-not-at-boundary", f"container {x.container_id} suspended away from an operator boundary")
                if ci.pool != x.pool_id:
                    h.problem(("C12", "C08"), "suspend-wrong-pool", f"container {x.container_id} lives in pool {ci.pool}, command says {x.pool_id}")


class ResumeMon(Monitor):
    """C12 (e): operators returned by a finished suspension are offered again - bounded
    progress: assigned in the first round in which some pool has free CPU and RAM.
    Counts resumed jobs as evidence; the verdict itself comes from work conservation (c)."""

    def __init__(self):
        self.waiting = {}

    def exec_post(self, h, t, results):
        for ci in h.conts.values():
            if ci.status == "suspended" and ci.ended == t:
                ops = [op for op in ci.ops if sut.state_of(op) != "completed"]
                self.waiting[ci.cid] = ops
                for op in ops:
                    if sut.state_of(op) != "pending":
                        h.problem(("C10", "C12"), "suspended-op-not-pending", f"operator of suspended container {ci.cid} is {sut.state_of(op)}")
                h.ev("suspensions_finished")
                if ci.real is not None and getattr(ci.real, "suspend_ticks", None) == 1:
                    h.ev("one_tick_suspensions")

    def sched_post(self, h, t, s, sus, asg):
        assigned = {id(op) for a in asg for op in a.ops}
        for cid, ops in list(self.waiting.items()):
            if all(id(op) in assigned for op in ops):
                del self.waiting[cid]
                h.ev("resumed_jobs")

    def end(self, h, stats):
        h.ev("suspended_jobs_still_waiting_at_end", len(self.waiting))


class PoolIsolationMon(Monitor):
    """C16."""

    def __init__(self):
        self.retry = {}      # id(op) -> record
        self.records = []

    def sched_pre(self, h, t, s, results, pipelines):
        self.pre = [[p.avail_cpu_pool, p.avail_ram_pool] for p in h.ex.pools]
        for r in results:
            if r.error is not None:
                ops = [op for op in r.ops if sut.state_of(op) != "completed"]
                pool = h.ex.pools[r.pool_id]
                rec = {"ops": {id(o) for o in ops}, "cpu": r.cpu, "ram": r.ram, "pool": r.pool_id, "cid": r.container_id,
                       "abandon": (2 * r.cpu / pool.max_cpu_pool >= 0.5) or (2 * r.ram / pool.max_ram_pool >= 0.5)}
                for o in ops:
                    self.retry[id(o)] = rec
                h.ev("oom_failures_seen")
                if rec["abandon"]:
                    h.ev("retries_to_be_abandoned")

    def sched_post(self, h, t, s, sus, asg):
        if sus:
            h.problem(("C16", "C12"), "suspension-by-other-policy", f"priority-pool issued {len(sus)} suspension(s)")
        avail = [list(x) for x in self.pre]
        for a in asg:
            cls = a.ops[0].pipeline.priority.name
            want = 0 if cls in ("QUERY", "INTERACTIVE") else 1
            h.ev("assignments_class:" + cls)
            if a.pool_id != want:
                h.problem(("C16",), "wrong-pool", f"{cls} container assigned to pool {a.pool_id}")
            if any(op.pipeline.priority.name != cls for op in a.ops):
                h.problem(("C16",), "mixed-classes", "one container mixes pipelines of different classes")
            recs = [self.retry.get(id(op)) for op in a.ops]
            if any(r is not None for r in recs):
                rec = next(r for r in recs if r is not None)
                h.ev("retries_assigned")
                if {id(o) for o in a.ops} != rec["ops"]:
                    h.problem(("C16",), "retry-not-exact", f"retry of container {rec['cid']} holds {len(a.ops)} operators, unfinished were {len(rec['ops'])}")
                if rec["abandon"]:
                    h.problem(("C16",), "abandoned-retry-assigned",
                              f"retry after ({rec['cpu']} cpu, {rec['ram']} GB) reaches half of the pool when doubled and must be abandoned, but was assigned")
                dc, dr = 2 * rec["cpu"], 2 * rec["ram"]
                k = a.pool_id if 0 <= a.pool_id < len(avail) else 0
                doubled = feq(float(a.cpu), float(dc)) and feq(float(a.ram), float(dr))
                takeall = feq(float(a.cpu), float(avail[k][0])) and feq(float(a.ram), float(avail[k][1])) and \
                    (dc >= avail[k][0] or dr >= avail[k][1])
                # the statement fixes the *request* (doubled); how a request that does not fit into what is free is
                # cut down is left open: each component is either the doubled one or what the pool has left
                clamp = (dc >= avail[k][0] or dr >= avail[k][1]) and \
                    (feq(float(a.cpu), float(dc)) or feq(float(a.cpu), float(avail[k][0]))) and \
                    (feq(float(a.ram), float(dr)) or feq(float(a.ram), float(avail[k][1])))
                if doubled:
                    h.ev("retries_sized_doubled")
                elif takeall or clamp:
                    h.ev("retries_sized_to_free_remainder")
                if not (doubled or takeall or clamp):
                    h.problem(("C16",), "retry-size", f"retry sized ({a.cpu}, {a.ram}); want doubled ({dc}, {dr}) or cut down to the free remainder {avail[k]}")
                for o in a.ops:
                    self.retry.pop(id(o), None)
            if 0 <= a.pool_id < len(avail):
                avail[a.pool_id][0] -= a.cpu
                avail[a.pool_id][1] -= a.ram

    def end(self, h, stats):
        left = {id(r): r for r in self.retry.values()}
        h.ev("retries_never_assigned", sum(1 for r in left.values() if r["abandon"]))


class NaiveMon(Monitor):
    """C17."""

    def sched_pre(self, h, t, s, results, pipelines):
        self.pre = [(p.avail_cpu_pool, p.avail_ram_pool) for p in h.ex.pools]
        self.failed_before = set()
        self.state_before = {}
        if results or pipelines:
            if not hasattr(self, "open"):
                self.open = []
            self.open = [p for p in self.open if not all(st.value == "completed" for st in p.runtime_status().operator_states.values())]
            for p in self.open + list(pipelines):
                rs = p.runtime_status()
                if rs.state_counts[sut.OperatorState.FAILED] > 0:
                    self.failed_before.add(id(p))
                for op, st in rs.operator_states.items():
                    self.state_before[id(op)] = st.value
            self.open.extend(pipelines)
        self.triggered = bool(results or pipelines)

    def sched_post(self, h, t, s, sus, asg):
        multi = bool(h.params.get("multi_operator_containers", True))
        per_pool = {}
        if asg and not self.triggered:
            h.ev("assignments_in_untriggered_round")
            for a in asg:
                for op in a.ops:
                    for q in [op] + list(op.parents):
                        self.state_before.setdefault(id(q), "pending" if q is op else sut.state_of(q))
        for a in asg:
            per_pool[a.pool_id] = per_pool.get(a.pool_id, 0) + 1
            p = a.ops[0].pipeline
            if a.pool_id in per_pool and per_pool[a.pool_id] > 1:
                h.problem(("C17",), "two-containers-per-pool", f"tick {t}: {per_pool[a.pool_id]} assignments for pool {a.pool_id} in one round")
            if 0 <= a.pool_id < len(self.pre):
                fc, fr = self.pre[a.pool_id]
                if a.cpu != fc or a.ram != fr:
                    h.problem(("C17",), "not-whole-pool", f"tick {t}: container sized ({a.cpu}, {a.ram}); pool {a.pool_id} had ({fc}, {fr}) free")
            if id(p) in self.failed_before:
                h.problem(("C17",), "assigned-after-failure", f"tick {t}: pipeline {p.pipeline_id} has a failed operator and got a container")
            if not multi:
                if len(a.ops) != 1:
                    h.problem(("C17",), "not-single-operator", f"container with {len(a.ops)} operators in single-operator mode")
                op = a.ops[0]
                if self.state_before.get(id(op), "pending") not in ASSIGNABLE or \
                        any(self.state_before.get(id(q), "pending") != "completed" for q in op.parents):
                    h.problem(("C17",), "operator-not-ready", "single-operator container holds an operator that was not ready")
            h.ev("naive_assignments")
        if len(per_pool) > 1:
            h.ev("multi_pool_rounds")
        if self.failed_before:
            h.ev("rounds_with_failed_pipelines")


class OverbookMon(Monitor):
    """C18."""
    MAXF = 3

    def __init__(self):
        self.fail = {}

    def sched_pre(self, h, t, s, results, pipelines):
        self.pre = [p.avail_cpu_pool for p in h.ex.pools]
        self.triggered = bool(results) or bool(pipelines)
        for r in results:
            if r.error is not None:
                p = r.ops[0].pipeline
                self.fail[id(p)] = self.fail.get(id(p), 0) + 1
                if self.fail[id(p)] == self.MAXF:
                    h.ev("pipelines_abandoned")
        self.state_before = {}
        if not hasattr(self, "open"):
            self.open = []
        if self.triggered:
            self.open = [p for p in self.open if not all(st.value == "completed" for st in p.runtime_status().operator_states.values())]
            self.open.extend(pipelines)
            for p in self.open:
                for op, st in p.runtime_status().operator_states.items():
                    self.state_before[id(op)] = st.value

    def sched_post(self, h, t, s, sus, asg):
        rem = list(self.pre)
        if asg and not self.triggered:
            for a in asg:
                for op in a.ops:
                    for q in [op] + list(op.parents):
                        self.state_before.setdefault(id(q), "pending" if q is op else sut.state_of(q))
        for a in asg:
            p = a.ops[0].pipeline
            h.ev("overbook_assignments")
            if len(a.ops) != 1:
                h.problem(("C18",), "not-single-operator", f"container with {len(a.ops)} operators")
            op = a.ops[0]
            if self.state_before.get(id(op), "pending") not in ASSIGNABLE or \
                    any(self.state_before.get(id(q), "pending") != "completed" for q in op.parents):
                h.problem(("C18",), "operator-not-ready", "container holds an operator that was not ready")
            if a.cpu != 1:
                h.problem(("C18",), "cpu-not-one", f"container with {a.cpu} CPUs")
            if 0 <= a.pool_id < len(h.ex.pools) and a.ram != h.ex.pools[a.pool_id].max_ram_pool:
                h.problem(("C18",), "ram-not-pool-capacity", f"container limit {a.ram} GB, pool capacity {h.ex.pools[a.pool_id].max_ram_pool}")
            if self.fail.get(id(p), 0) >= self.MAXF:
                h.problem(("C18",), "assigned-after-third-failure", f"pipeline {p.pipeline_id} has {self.fail[id(p)]} failed containers and got another")
            if 0 <= a.pool_id < len(rem):
                rem[a.pool_id] -= a.cpu
        if self.triggered:
            h.ev("triggered_rounds")
            free = any(x >= 1 for x in rem)
            if not free:
                h.ev("rounds_with_full_cpus")
            else:
                for p in self.open:
                    if self.fail.get(id(p), 0) >= self.MAXF:
                        continue
                    rs = p.runtime_status()
                    if rs.state_counts[sut.OperatorState.PENDING] == 0 and rs.state_counts[sut.OperatorState.FAILED] == 0:
                        continue
                    for op, st in rs.operator_states.items():
                        if st.value in ASSIGNABLE and ready(op):
                            h.problem(("C18",), "ready-operator-waits",
                                      f"tick {t}: ready operator of live pipeline {p.pipeline_id} waits although a pool has a free CPU ({rem})")
                            return

    def exec_post(self, h, t, results):
        for pool in h.ex.pools:
            n = len(pool.active_containers) + len(pool.suspending_containers)
            if n > pool.max_cpu_pool:
                h.problem(("C18",), "more-containers-than-cpus", f"pool {pool.pool_id}: {n} containers on {pool.max_cpu_pool} CPUs")
            if pool.avail_ram_pool < 0:
                h.ev("ticks_with_ram_overbooked")


# =========================================================================== C07 canonical log


class EventLogMon(Monitor):
    """Canonical tick-by-tick log: identifiers renumbered by first appearance."""

    def __init__(self):
        self.names = {}
        self.lines = []

    def name(self, kind, obj_id):
        key = (kind, obj_id)
        if key not in self.names:
            self.names[key] = f"{kind}{sum(1 for k in self.names if k[0] == kind)}"
        return self.names[key]

    def op_name(self, op):
        p = op.pipeline
        pn = self.name("P", id(p))
        idx = list(p.runtime_status().operator_states.keys()).index(op)
        return f"{pn}.{idx}"

    def arrivals(self, h, t, ps):
        for p in ps:
            ops = []
            keys = list(p.runtime_status().operator_states.keys())
            for op in keys:
                segs = [(s.baseline_cpu_seconds, _law_name(s), s.memory_gb, s.storage_read_gb) for s in op.get_segments()]
                ops.append(([keys.index(q) for q in op.parents], segs))
            self.lines.append(("A", t, self.name("P", id(p)), p.priority.name, repr(ops)))

    def sched_post(self, h, t, s, sus, asg):
        for x in sus:
            self.lines.append(("S", t, self.name("C", x.container_id), x.pool_id))
        for a in asg:
            self.lines.append(("G", t, [self.op_name(o) for o in a.ops], repr(a.cpu), repr(a.ram), a.pool_id, a.priority.name))

    def exec_post(self, h, t, results):
        for r in results:
            self.lines.append(("R", t, self.name("C", r.container_id), r.error, [self.op_name(o) for o in r.ops], r.pool_id))

    def digest(self):
        import hashlib
        hsh = hashlib.sha256()
        for ln in self.lines:
            hsh.update(repr(ln).encode())
        return hsh.hexdigest()
