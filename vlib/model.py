"""Reference models (oracles).  Written from the property statements and the README;
shares no code with the tree under test.  Exact rational arithmetic where a float
boundary matters."""
import math
from fractions import Fraction

DISK_GB_PER_S = 20
REL_BAND = Fraction(1, 10 ** 9)

STATES = ("pending", "assigned", "running", "suspending", "completed", "failed")
# M1: the documented life cycle
ALLOWED = {
    ("pending", "assigned"),
    ("assigned", "running"),
    ("assigned", "suspending"),
    ("assigned", "failed"),
    ("running", "completed"),
    ("running", "failed"),
    ("suspending", "pending"),
    ("failed", "assigned"),
}
ASSIGNABLE = ("pending", "failed")

LAWS = ("const", "log", "sqrt", "linear3", "linear7", "squared", "exp")


def is_pow2(n):
    return isinstance(n, int) and n > 0 and (n & (n - 1)) == 0


# --------------------------------------------------------------------------- M3


def cpu_seconds(law, cpus, base):
    """(value, exact) - CPU seconds of a segment on `cpus` CPUs; exact is a Fraction
    for the rational laws and None for the transcendental ones."""
    b = Fraction(base)
    c = Fraction(cpus)
    if law == "const":
        return b, True
    if law == "linear3":
        return (b / c if c < 3 else b / 3), True
    if law == "linear7":
        return (b / c if c < 7 else b / 7), True
    if law == "squared":
        return b / (c * c), True
    if law == "exp":
        if c >= 4:
            return b / 16, True
        if c.denominator == 1:
            return b / (2 ** int(c)), True
        return Fraction(float(base) / (2.0 ** float(cpus))), False
    if law == "log":
        return Fraction(float(base) / (math.log(float(cpus)) + 1.0)), False
    if law == "sqrt":
        return Fraction(float(base) / math.sqrt(float(cpus))), False
    raise ValueError(law)


def tick_candidates(x, tps, exact):
    """Admissible tick counts for an exact duration of x ticks (Fraction).

    floor(x), plus the neighbour when x is within float rounding of an integer
    (C05: 'quantities within float rounding of a tick ... boundary may fall on
    either side').  If the tick rate is a power of two (1/tps and the division
    are exact in binary) and x is an exact integer of a rational law there is no
    rounding anywhere and the count is strict."""
    if x < 0:
        return [0]
    fl = x.numerator // x.denominator
    n = fl if (x - fl) * 2 < 1 else fl + 1  # nearest integer
    dist = abs(x - n)
    if dist <= REL_BAND * max(1, n):
        if dist == 0 and exact and is_pow2(tps):
            return [n]
        cands = sorted({max(0, n - 1), n}) if n >= 1 else [0]
        # order: plain floor first
        cands.sort(key=lambda v: v != fl)
        return cands
    return [fl]


class Seg:
    __slots__ = ("cpu", "law", "mem", "read")

    def __init__(self, cpu, law="const", mem=None, read=0.0):
        self.cpu, self.law, self.mem, self.read = cpu, law, mem, read

    @classmethod
    def of(cls, d):
        return cls(d["cpu"], d.get("law", "const"), d.get("mem"), d.get("read", 0.0))


def seg_candidates(seg, cpus, tps):
    io_x = Fraction(seg.read) / DISK_GB_PER_S * tps
    cs, exact = cpu_seconds(seg.law, cpus, seg.cpu)
    cpu_x = cs * tps
    return tick_candidates(io_x, tps, True), tick_candidates(cpu_x, tps, exact)


def near(a, b, rel=1e-9):
    return abs(a - b) <= rel * max(1.0, abs(b))


class Tick:
    """One predicted executor tick of a container."""
    __slots__ = ("demand", "alts", "op", "ncomp", "ends_op", "final", "exact")

    def __init__(self, demand, op, ncomp, ends_op, final, alts=None, exact=True):
        self.demand = demand      # memory use during this tick (GB)
        self.exact = exact        # demand is a given constant (no arithmetic, comparisons are strict)
        self.alts = alts          # other acceptable values (forced one-tick operators)
        self.op = op              # index of the operator that runs in this tick
        self.ncomp = ncomp        # completed operators after this tick
        self.ends_op = ends_op    # this tick completes operator `op`
        self.final = final        # this tick completes the container


def container_ticks(ops, cpus, tps, choices=()):
    """Predicted tick sequence of a container that never hits a limit.

    ops: list of operators, each a list of Seg.  `choices` resolves ambiguous tick
    counts in order of appearance (0 = first candidate).  Returns (ticks, n_ambiguous)."""
    ch = list(choices)
    pos = 0
    n_amb = 0
    out = []
    nops = len(ops)
    for k, segs in enumerate(ops):
        st = []
        for seg in segs:
            ioc, cpuc = seg_candidates(seg, cpus, tps)
            pick = []
            for cands in (ioc, cpuc):
                if len(cands) > 1:
                    n_amb += 1
                    c = ch[pos] if pos < len(ch) else 0
                    pos += 1
                    pick.append(cands[c % len(cands)])
                else:
                    pick.append(cands[0])
            st.append(tuple(pick))
        total = sum(a + b for a, b in st)
        if total == 0:
            # an operator occupies at least one tick; the statement does not say which
            # memory figure that tick shows, so any of the operator's own figures is accepted
            alts = set()
            for seg in segs:
                alts.add(float(seg.mem) if seg.mem is not None else float(seg.read))
                if seg.mem is None:
                    alts.add(min(float(seg.read), DISK_GB_PER_S / tps))
                    alts.add(0.0)
            last = segs[-1]
            d = float(last.mem) if last.mem is not None else float(last.read)
            out.append(Tick(d, k, k + 1, True, k == nops - 1, alts=sorted(alts), exact=False))
            continue
        last_seg = max(i for i, (a, b) in enumerate(st) if a + b > 0)
        for s, seg in enumerate(segs):
            io, cp = st[s]
            for i in range(io + cp):
                exactval = True
                if seg.mem is not None:
                    d = float(seg.mem)
                elif i < io:
                    d = DISK_GB_PER_S * (i + 1) / tps
                    exactval = False
                else:
                    d = float(seg.read)
                ends = (s == last_seg and i == io + cp - 1)
                out.append(Tick(d, k, k + 1 if ends else k, ends, ends and k == nops - 1, exact=exactval))
    return out, n_amb


def suspend_tick_candidates(ram, tps):
    x = Fraction(ram) / DISK_GB_PER_S * tps
    return [max(1, c) for c in tick_candidates(x, tps, True)]


def over(demand, limit):
    """True / False / None (within T2 of the limit: either outcome is acceptable)."""
    if near(demand, limit):
        return None
    return demand > limit


# --------------------------------------------------------------------------- M5


def check_pool_kills(conts, capacity, overcommit, failed_ids):
    """Clause-form acceptor for one pool and one tick.

    conts: list of dict(id, demand, alloc, finished) for every container that was
    active in this tick (demand = its memory use of the tick before any kill,
    finished = it completed in this tick).  failed_ids: ids reported failed.
    Returns a list of (clause, message) problems (empty = accepted)."""
    problems = []
    failed = set(failed_ids)
    indiv_sure, indiv_maybe = set(), set()
    for c in conts:
        # a caller that knows the demand is a given constant decides strictly ("over" key)
        o = c["over"] if "over" in c else over(c["demand"], c["alloc"])
        if c["finished"] and c["id"] in failed:
            problems.append(("finished-killed", f"container {c['id']} completed in this tick and was killed"))
        if c["finished"]:
            continue
        if o is True:
            indiv_sure.add(c["id"])
        elif o is None:
            indiv_maybe.add(c["id"])
    for cid in indiv_sure - failed:
        problems.append(("missed-individual", f"container {cid} exceeded its own allocation and survived"))
    indiv = (indiv_sure | indiv_maybe) & failed
    victims = failed - indiv - {c["id"] for c in conts if c["finished"]}
    by_id = {c["id"]: c for c in conts}
    unknown = victims - set(by_id)
    for cid in unknown:
        problems.append(("unknown-victim", f"failed container {cid} was not active"))
    victims -= unknown
    # usage that the pool-level step looks at: finished containers use nothing any more
    live = [c for c in conts if c["id"] not in indiv and not c["finished"]]
    total = sum(c["demand"] for c in live)
    survivors = [c for c in live if c["id"] not in victims]
    s_use = sum(c["demand"] for c in survivors)

    def score(c):
        return c["demand"] * c["demand"] / c["alloc"]

    if victims:
        if not overcommit:
            problems.append(("kill-without-overcommit",
                             f"containers {sorted(victims)} killed although each stayed within its allocation"))
            return problems
        ot = over(total, capacity)
        # maybe-individual containers may or may not have been counted in the total
        slack = sum(by_id[i]["demand"] for i in indiv_maybe if i in by_id)
        if ot is False and over(total + slack, capacity) is False:
            problems.append(("needless-kill", f"victims {sorted(victims)} although total demand {total:.9g} fits capacity {capacity}"))
        for cid in victims:
            c = by_id[cid]
            if c["demand"] <= 0:
                problems.append(("zero-usage-victim", f"container {cid} uses no memory and was killed"))
        if survivors:
            vmin = min(score(by_id[v]) for v in victims)
            smax_c = max(survivors, key=score)
            if score(smax_c) > vmin and not near(score(smax_c), vmin) and smax_c["demand"] > 0:
                problems.append(("order", f"victim with score {vmin:.9g} killed while survivor {smax_c['id']} "
                                          f"has score {score(smax_c):.9g}"))
        # need: some victim of minimal score was still necessary
        vs = sorted((by_id[v] for v in victims), key=score)
        vmin = score(vs[0])
        lows = [v for v in vs if near(score(v), vmin) or score(v) <= vmin]
        if not any(over(s_use + v["demand"], capacity) in (True, None) for v in lows):
            problems.append(("overkill", f"killing stopped too late: survivors use {s_use:.9g}, adding back any "
                                         f"lowest-score victim still fits capacity {capacity}"))
    if over(s_use, capacity) is True:
        problems.append(("over-capacity", f"survivors use {s_use:.9g} GB > capacity {capacity} after the tick"))
    return problems


# --------------------------------------------------------------------------- M7


def percentile(values, q):
    """Linear-interpolation percentile (the documented numpy default)."""
    v = sorted(values)
    if not v:
        return float("nan")
    if len(v) == 1:
        return float(v[0])
    pos = (len(v) - 1) * q / 100.0
    lo = int(math.floor(pos))
    hi = min(lo + 1, len(v) - 1)
    frac = pos - lo
    return v[lo] + (v[hi] - v[lo]) * frac


def mean(values):
    return sum(values) / len(values) if values else float("nan")


def feq(a, b, rel=1e-9):
    if isinstance(a, float) and isinstance(b, float) and a != a and b != b:
        return True
    try:
        if a != a or b != b:
            return False
    except Exception:
        pass
    return abs(a - b) <= rel * max(1.0, abs(a), abs(b))


# --------------------------------------------------------------------------- M8


def grid_band(n):
    """T4: how close to a tick boundary a text must be to count as 'float noise of that
    boundary': 1e-9 tick absolute, plus 1e-13 relative so that the band stays above the
    float resolution of large tick numbers (ulp(1e7) = 1.9e-9)."""
    return Fraction(1, 10 ** 9) + Fraction(abs(int(n)), 10 ** 13)


def exact_ticks(text, tps):
    """Exact position of an arrival text on the tick axis (Fraction)."""
    return Fraction(text.strip()) * tps


def arrival_tick(text, tps):
    """(tick, strict): first tick whose start is at or after the arrival.  strict is
    False when the text is within 1e-9 tick of a boundary without being on it (T4):
    then either neighbouring tick is acceptable."""
    x = exact_ticks(text, tps)
    c = -((-x.numerator) // x.denominator)  # ceil
    n = round(x)
    if x == n:
        return int(n), True
    if abs(x - n) <= grid_band(n):
        return int(c), False
    return int(c), True


def snap_tick(text, tps):
    """(tick, strict) of the grid point at or below the arrival."""
    x = exact_ticks(text, tps)
    f = x.numerator // x.denominator
    n = round(x)
    if x == n:
        return int(n), True
    if abs(x - n) <= grid_band(n):
        return int(f), False
    return int(f), True
