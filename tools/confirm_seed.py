#!/usr/bin/env python3
"""Confirm a sub-agent's seeded change in its scratch worktree and, if everything holds,
keep it as /verif/seeded/<prop>-<variant>/ (patch.diff, demo.py, NOTES.md, meta.json).

usage: confirm_seed.py <worktree> <variant> <prop>
Confirms: worktree pristine -> demo exits 0; patch applies; suite passes (51); demo exits 1;
worktree restored."""
import json
import os
import shutil
import subprocess
import sys

VERIF = os.path.dirname(os.path.dirname(os.path.abspath(__file__)))


def sh(cmd, cwd=None, timeout=1800):
    p = subprocess.run(cmd, shell=True, cwd=cwd, stdout=subprocess.PIPE, stderr=subprocess.STDOUT, text=True, timeout=timeout)
    return p.returncode, p.stdout


def main():
    wt, var, prop = sys.argv[1], sys.argv[2], sys.argv[3]
    sd = os.path.join(wt, "seed", var)
    patch = os.path.join(sd, "patch.diff")
    demo = os.path.join(sd, "demo.py")
    if not (os.path.exists(patch) and os.path.exists(demo)):
        print(f"{prop}-{var}: missing patch.diff or demo.py")
        return 2
    env = f"PYTHONPATH={wt} PYTHONDONTWRITEBYTECODE=1"
    sh("git checkout -- eudoxia", cwd=wt)
    rc0, out0 = sh(f"{env} timeout 900 /venv/bin/python {demo}", cwd=wt)
    rc, out = sh(f"git apply {patch}", cwd=wt)
    if rc != 0:
        print(f"{prop}-{var}: patch does not apply: {out[-300:]}")
        return 2
    files = sh("git diff --name-only -- eudoxia", cwd=wt)[1].split()
    trc, tout = sh(f"{env} /venv/bin/python -m pytest -q -p no:cacheprovider -n 8 --timeout=900 2>&1 | tail -3", cwd=wt)
    rc1, out1 = sh(f"{env} timeout 900 /venv/bin/python {demo}", cwd=wt)
    sh("git checkout -- eudoxia", cwd=wt)
    tests_ok = "51 passed" in tout and "failed" not in tout
    ok = rc0 == 0 and rc1 == 1 and tests_ok
    print(f"{prop}-{var}: demo pristine exit {rc0}, tests [{tout.strip().splitlines()[-1] if tout.strip() else ''}], "
          f"demo with change exit {rc1}, files {files} -> {'CONFIRMED' if ok else 'REJECTED'}")
    if not ok:
        print(out1[-500:] if rc1 != 1 else out0[-500:])
        return 1
    dst = os.path.join(VERIF, "seeded", f"{prop}-{var}")
    os.makedirs(dst, exist_ok=True)
    shutil.copy(patch, os.path.join(dst, "patch.diff"))
    shutil.copy(demo, os.path.join(dst, "demo.py"))
    notes = os.path.join(sd, "NOTES.md")
    if os.path.exists(notes):
        shutil.copy(notes, os.path.join(dst, "NOTES.md"))
    meta = {
        "property": prop, "variant": var, "files": files,
        "origin": "independent sub-agent given only the property text and a scratch worktree",
        "needs_to_manifest": open(notes).read()[:1500] if os.path.exists(notes) else "",
        "confirmed": {"demo_exit_pristine": rc0, "demo_exit_with_change": rc1, "suite": tout.strip().splitlines()[-1],
                      "commands": [f"git apply seed/{var}/patch.diff", "PYTHONPATH=<wt> /venv/bin/python -m pytest -q -p no:cacheprovider -n 8",
                                   f"PYTHONPATH=<wt> /venv/bin/python seed/{var}/demo.py"]},
        "repo_head": sh("git rev-parse --short HEAD", cwd=wt)[1].strip(),
    }
    with open(os.path.join(dst, "meta.json"), "w") as f:
        json.dump(meta, f, indent=1)
    return 0


if __name__ == "__main__":
    sys.exit(main())
