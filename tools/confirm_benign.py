#!/usr/bin/env python3
"""Confirm a sub-agent's benign variant in its scratch worktree (patch applies, suite passes, demo
exits 0 with and without the change) and keep it as /verif/benign/<prop>-<variant>/.
usage: confirm_benign.py <worktree> <variant> <prop>"""
import json
import os
import shutil
import subprocess
import sys

VERIF = os.path.dirname(os.path.dirname(os.path.abspath(__file__)))


def sh(cmd, cwd=None, timeout=1800):
    p = subprocess.run(cmd, shell=True, cwd=cwd, stdout=subprocess.PIPE, stderr=subprocess.STDOUT, text=True, timeout=timeout)
    return p.returncode, p.stdout


def main():
    wt, var, prop = sys.argv[1], sys.argv[2], sys.argv[3]
    sd = os.path.join(wt, "benign", var)
    patch, demo, notes = (os.path.join(sd, x) for x in ("patch.diff", "demo.py", "NOTES.md"))
    if not os.path.exists(patch):
        print(f"{prop}-{var}: no patch.diff")
        return 2
    env = f"PYTHONPATH={wt} PYTHONDONTWRITEBYTECODE=1"
    sh("git checkout -- eudoxia", cwd=wt)
    rc0, _ = sh(f"{env} timeout 900 /venv/bin/python {demo}", cwd=wt) if os.path.exists(demo) else (0, "")
    rc, out = sh(f"git apply {patch}", cwd=wt)
    if rc != 0:
        print(f"{prop}-{var}: patch does not apply: {out[-300:]}")
        return 2
    files = sh("git diff --name-only -- eudoxia", cwd=wt)[1].split()
    trc, tout = sh(f"{env} /venv/bin/python -m pytest -q -p no:cacheprovider -n 8 --timeout=900 2>&1 | tail -3", cwd=wt)
    rc1, _ = sh(f"{env} timeout 900 /venv/bin/python {demo}", cwd=wt) if os.path.exists(demo) else (0, "")
    sh("git checkout -- eudoxia", cwd=wt)
    ok = rc0 == 0 and rc1 == 0 and "51 passed" in tout and "failed" not in tout
    print(f"{prop}-{var}: demo pristine {rc0}, tests [{tout.strip().splitlines()[-1] if tout.strip() else ''}], demo changed {rc1}, files {files} -> "
          f"{'CONFIRMED' if ok else 'REJECTED'}")
    if not ok:
        return 1
    dst = os.path.join(VERIF, "benign", f"{prop}-{var}")
    os.makedirs(dst, exist_ok=True)
    for f in (patch, demo, notes):
        if os.path.exists(f):
            shutil.copy(f, dst)
    json.dump({"property": prop, "variant": var, "files": files, "kind": "benign (property still holds)",
               "origin": "independent sub-agent given only the property text and a scratch worktree",
               "repo_head": sh("git rev-parse --short HEAD", cwd=wt)[1].strip(),
               "why_property_holds": open(notes).read()[:2500] if os.path.exists(notes) else ""},
              open(os.path.join(dst, "meta.json"), "w"), indent=1)
    return 0


if __name__ == "__main__":
    sys.exit(main())
