#!/bin/sh
# run every registered check (tier from $1, default quick) and print one line per property
cd "$(dirname "$0")/.." || exit 2
TIER="${1:-quick}"
rc=0
for p in C01 C02 C03 C04 C05 C06 C07 C08 C09 C10 C11 C12 C13 C14 C15 C16 C17 C18 C19 C20; do
  s=$(date +%s)
  out=$(./check $p --tier "$TIER" 2>&1); r=$?
  e=$(date +%s)
  echo "$p exit=$r $((e-s))s $(echo "$out" | grep -E '^(HELD|VIOLATION|INCONCLUSIVE|KNOWN-FINDING)' | cut -c1-160 | tr '\n' ' ')"
  [ $r -ne 0 ] && rc=1
done
exit $rc
