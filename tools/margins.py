#!/usr/bin/env python3
"""Audit of the required-event thresholds: run every check for several seeds (against /repo) and
report, per required counter, the smallest observed/minimum ratio.  Ratios close to 1 mean the
check may turn INCONCLUSIVE on some seed although nothing is wrong.
usage: margins.py [seed ...]   (default seeds 11 12 13 14)"""
import json
import os
import subprocess
import sys

VERIF = os.path.dirname(os.path.dirname(os.path.abspath(__file__)))
seeds = [int(x) for x in sys.argv[1:]] or [11, 12, 13, 14]
worst = {}
status = {}
for seed in seeds:
    for i in range(1, 21):
        pid = f"C{i:02d}"
        env = dict(os.environ, VERIF_SEED=str(seed))
        c = subprocess.run([os.path.join(VERIF, "check"), pid], cwd=VERIF, env=env, stdout=subprocess.PIPE, stderr=subprocess.STDOUT, text=True)
        status.setdefault(pid, []).append(c.returncode)
        ev = json.load(open(os.path.join(VERIF, "evidence", pid + ".json")))
        for k, v in ev["coverage"]["required_events"].items():
            r = v["observed"] / max(1, v["minimum"])
            key = (pid, k)
            if key not in worst or r < worst[key][0]:
                worst[key] = (r, seed, v["observed"], v["minimum"])
        if c.returncode != 0:
            print(f"!! {pid} seed {seed} exit {c.returncode}: " + " ".join(l for l in c.stdout.splitlines() if l.startswith(("INCONCLUSIVE", "VIOLATION")))[:300], flush=True)
print("exit codes:", {k: v for k, v in status.items() if any(v)})
for (pid, k), (r, seed, o, m) in sorted(worst.items(), key=lambda kv: kv[1][0]):
    if r < 4:
        print(f"{pid} {k}: worst ratio {r:.2f} (observed {o}, minimum {m}, seed {seed})")
