#!/usr/bin/env python3
"""Regenerate MANIFEST.json from the table below (checks exist iff vlib/props/<id>.py exists)."""
import json
import os

HERE = os.path.dirname(os.path.dirname(os.path.abspath(__file__)))

BASELINE = "cd /repo && /venv/bin/python -m pytest -ra -q -p no:cacheprovider --timeout=900 --continue-on-collection-errors"

T = {
    "C01": ("exploration", "7",
            "runtime monitoring: transition-log monitor (total order of life-cycle events) + exhaustive DAG-iteration oracle",
            "Every accepted ->RUNNING event of tens of thousands of generated executions (all shipped schedulers, the starter template, scripted inadmissible decisions, both container modes, OOM/suspension histories) is checked against the dependency clause on a totally ordered transition log; DAG iteration is checked against a permutation/parents-first oracle for every DAG on <= 6 nodes (exhaustive component).",
            "Held on the executions observed; simulation part is sampling. Trusted: the probe wrapping PipelineRuntimeStatus.transition, my M1/M2 models."),
    "C02": ("exploration", "7",
            "runtime monitoring: lock-step reference automaton on every transition request (exhaustive small histories + simulated histories)",
            "An independent life-cycle automaton runs in lock-step with the real PipelineRuntimeStatus: complete transition relation over all reachable state vectors of all DAGs on <= 3 operators, all request histories to a fixed depth, and every transition of full simulations / executor scripts; refusals must leave states and counts untouched; container membership polled each tick.",
            "Exhaustive for <= 3 operators to the stated depth; sampling beyond. Trusted: M1 as written from the property."),
    "C03": ("exploration", "7",
            "runtime monitoring: per-tick conservation invariant + shadow ledger (M4) under adaptive command scripts and full simulations",
            "After every executor tick of generated command scripts (legal and overselling batches, suspensions, kills, 1..4 pools, with/without overcommit, tick rates 1..100000) and of simulations under every shipped scheduler, free + held = capacity is recomputed from the live container lists and compared with an independent ledger that releases each allocation exactly once in the model's ending tick.",
            "Sampling of schedules, including long busy scripts (4,500-9,000 ticks, ~12,000 containers in one pool) and simulations large in one dimension (thousands of pipelines, hundreds of suspensions) and a random admissible policy. Trusted: ledger model M4, container model M3 for ending ticks."),
    "C04": ("exploration", "7",
            "runtime monitoring: per-tick memory invariants + demand oracle (M3) + kill-justification acceptor (M5)",
            "After every tick: running container use <= allocation, pool use <= capacity, reported use == sum of running containers' use; every failure result must be justified by the independent per-tick demand model (own limit, or pool demand above capacity with overcommit).",
            "Sampling incl. long busy scripts with growing memory (>10,000 memory updates per pool). Float tolerance 1e-9 relative at limits (computed values only; given constants are strict), 1e-6 GB for reported usage. Trusted: M3/M5."),
    "C05": ("exploration", "7",
            "runtime monitoring: lock-step reference model of container time/memory (M3) on generated single containers",
            "Tens of thousands of generated single containers (all seven scaling laws, 1..6 operators, 1..3 segments, fixed/growing memory, boundary-adjacent durations and allocations, tick rates 1..100000) are executed through the real Executor while an independent model predicts memory use, operator states and the result for every tick; any difference is a violation.",
            "Sampling of an unbounded input space, boundary classes enumerated; also retries of the same operators with another CPU count, neighbours whose memory changes cancel, long-lived containers next to heavy churn. Float-boundary cases accepted on either side as C05 states. Trusted: M3."),
    "C06": ("exploration", "7",
            "runtime monitoring: independent recount (M7) of every returned statistic from recorded arrivals, decisions and results",
            "run_simulator itself is driven with a recording workload/scheduler/executor wrap; every field of SimulatorStats named by the property is recomputed from the recorded events and compared (1e-9 relative, NaN==NaN); completion tick, exactly-once counting and uncontended latency = model ticks - 1 are checked per pipeline.",
            "Sampling over schedulers, configurations, workloads incl. empty/zero-completion runs. Trusted: recorder placement at the workload/scheduler/executor boundaries; own percentile."),
    "C07": ("exploration", "7",
            "runtime monitoring: equality of canonical event logs of paired runs (same process, fresh processes under different PYTHONHASHSEED)",
            "Each configuration is run repeatedly: twice in one process with unrelated simulations in between, and in fresh interpreter processes under different hash seeds; the canonicalised tick-by-tick logs of arrivals, decisions, results and the statistics must be identical; generated workloads must not depend on scheduler/executor parameters and must differ across seeds.",
            "Sampling over parameter sets; every process visits the configurations in another rotation and under another PYTHONHASHSEED; second runs are positioned at container-id roll-overs; log digests compared by the parent. Trusted: canonicalisation (renumbering by first appearance)."),
    "C08": ("exploration", "7",
            "runtime monitoring: totality oracle (returns statistics, no exception) over generated valid configurations x workloads",
            "run_simulator is executed for thousands of generated valid configurations (tick rates 1..100000, 1 CPU, sub-GB pools, sub-tick durations, decimal probability triples, both modes, DAG workloads with zero-tick segments) under naive, priority, priority-pool, overbook and the rendered starter template; any escaping exception is a violation with tick and decision recorded.",
            "Sampling, weighted to corners; validity of inputs by construction. One open known finding (priority-pool in single-operator mode)."),
    "C09": ("exploration", "7",
            "runtime monitoring: container ledger (exactly-one-container, exactly-one-outcome, identity) per tick under command scripts",
            "Every accepted assignment is matched to exactly one new container, every container to exactly one outcome delivered once in its ending tick, success/failure patterns and the identity assignments = successes + failures + suspended + live are checked after every tick; commands for unknown pools must raise.",
            "Sampling over scripts with 1..4 pools incl. same-tick completion+kill+suspension. Trusted: M3/M4/M6 for the predicted ending ticks."),
    "C10": ("fault_enumeration", "7",
            "runtime monitoring: suspension injected at every tick of every generated container's life, judged by model M6",
            "For each generated container scenario a suspension request is injected at every tick of its life (enumerated injection points); acceptance/refusal, duration max(1, floor(ram/20*tps)), no progress, allocation held then released exactly once, operator states afterwards and re-assignability are compared with the model; random scripts add concurrent activity.",
            "Injection points exhaustive per generated container; containers themselves sampled; plus long busy scripts with hundreds of overlapping write-outs. Trusted: M6/M3."),
    "C11": ("exploration", "7",
            "runtime monitoring: clause-form acceptor (M5) for pool-level OOM victims on every over-capacity tick",
            "Overcommitted pools with 2..12 concurrent containers whose usage order and score order disagree are driven across capacity; for every tick the failed set is checked clause by clause: individual victims, no victim while a strictly higher score survives, no finished/zero-usage victim, last kill necessary, survivors fit.",
            "Sampling; ties accepted either way. Trusted: per-container demand from M3."),
    "C12": ("exploration", "7",
            "runtime monitoring: per-round policy monitor (strict order, FIFO, work conservation, preemption rules) on recorded scheduler rounds",
            "Every scheduling round of priority (and priority-pool's pools) in thousands of simulations is checked on snapshots taken at the scheduler boundary: lower class assigned only if no ready pending higher-class operator waits, FIFO first containers, ready pending work waits only if every usable pool is out of CPU or RAM, suspensions only non-query, at boundaries, while a query waits and at most one per waiting query job; suspended work offered again (bounded progress).",
            "Sampling; liveness clause restated as per-round safety. FAILED operators are not 'waiting' (policy may drop retries)."),
    "C13": ("exploration", "7",
            "runtime monitoring: exact-decimal arrival oracle (M8) over enumerated grid points and generated traces; gentrace round trips",
            "For each tick rate the trace reader is stepped tick by tick over traces whose arrival texts are enumerated grid points and generated off/near-grid values; delivery tick, exactly-once, order and cut-off are compared with exact rational arithmetic on the texts; gentrace->replay round trips compare generation and replay ticks.",
            "Grid enumeration to a bound per tick rate; one open known finding (late-by-one from the float quotient)."),
    "C14": ("exploration", "7",
            "runtime monitoring: structural round-trip oracle for generated DAG workloads and malformed files",
            "Generated multi-parent, multi-root pipelines with odd numerics are written, read back and compared structurally; reader->writer round trips compare rows; every malformed-file class of the statement must raise.",
            "Sampling over DAGs and values."),
    "C15": ("exploration", "7",
            "runtime monitoring: structural and statistical monitors on the generator's output over seeds x parameter sets",
            "The real generator is stepped for many seeds and parameter sets; structure (batch size, ids, chains, prototypes, first operator) is checked exactly, distributional claims with fixed-seed >= 6 sigma bounds.",
            "Statistical clauses decided with error probability < 1e-8 per check; seeds fixed per VERIF_SEED."),
    "C16": ("exploration", "7",
            "runtime monitoring: per-decision policy monitor for priority-pool (pool isolation, retry rules)",
            "Every assignment and failure of priority-pool simulations is checked: class -> pool mapping on first attempts and retries, no suspensions, retries contain exactly the unfinished operators together, doubled size or abandoned at the 50% cut-off.",
            "Sampling on two pools."),
    "C17": ("exploration", "7",
            "runtime monitoring: per-round policy monitor for the naive scheduler",
            "Every round: at most one assignment per pool sized to that pool's free CPU/RAM at round start, FIFO first containers, no suspensions, nothing for pipelines with a failed operator, one ready operator per container in single-operator mode.",
            "Sampling over pools/modes/failure histories."),
    "C18": ("exploration", "7",
            "runtime monitoring: per-decision policy monitor for the overbook scheduler",
            "Every assignment: one ready operator, one CPU, RAM = pool capacity; live containers <= CPUs; after triggered rounds no ready operator of a live pipeline waits while a CPU is free; nothing after the third failed container.",
            "Sampling with overcommit on."),
    "C19": ("exploration", "7",
            "runtime monitoring: recording loop-back HTTP server with ground-truth oracle + HTTP vs in-process replay equality",
            "A loop-back HTTP server records every request of REST-driven simulations and compares it with the live simulator state at that instant; protocol clauses (disjointness, complete-once, call cadence) are checked per request; the recorded decisions are replayed in process and logs/statistics must be equal.",
            "Go reference scheduler not executable here (no Go toolchain): Python side only."),
    "C20": ("exploration", "7",
            "runtime monitoring: exact-decimal oracle on input/output files of the trace tools run through the CLI entry",
            "snap/jitter/sensitivity-sample are run through eudoxia.__main__.main on generated traces; outputs are compared with exact rational arithmetic (grid point, never up, < 1 tick, idempotence, jitter bounds, order, column preservation, sample seeds).",
            "Sampling over arrival classes x tick rates."),
}


_SIMEXEC = (" Probes active in its simulation / executor cases (DESIGN 12.15-12.17): configuration corners (odd tick rates, "
            "fractional, tiny and huge pools, up to 33 pools, wide and deep DAGs, seed 0), a second live simulation in the same "
            "process next to a quarter of the simulation cases, result lists kept and re-read, state serialised between ticks, "
            "Segment objects shared across runs, every fourth worker process with the package's default DEBUG logging, optional "
            "Assignment arguments (is_resume, container_id, force_run) in decisions; sizes that latent faults need (thousands of exits / completions / pipelines, "
            "long scripts) are REQUIRE counters, so a run that did not reach them is INCONCLUSIVE.")
PROBES = {pid: _SIMEXEC for pid in ("C01", "C02", "C03", "C04", "C05", "C06", "C07", "C08", "C09", "C10", "C11", "C12", "C16", "C17", "C18")}
PROBES["C13"] = " The consumer keeps and extends the arrival lists it is handed (no list may come back)."
PROBES["C14"] = " Every second case reads the file twice through one reader (first pass abandoned, file rewound); odd pipeline ids (commas, quotes, non-ASCII, very long)."
PROBES["C15"] = " Up to four neighbour generators with permuted parameters stay alive and tick next to the observed one."
PROBES["C19"] = " The 'pack' decision source also puts operators of two pipelines into one container."


def main():
    checks = []
    na = []
    for pid in sorted(T):
        level, ref, tech, text, note = T[pid]
        if os.path.exists(os.path.join(HERE, "vlib", "props", pid.lower() + ".py")):
            checks.append({
                "property_id": pid,
                "quick_cmd": f"./check {pid} --tier quick",
                "thorough_cmd": f"./check {pid} --tier thorough",
                "evidence_file": f"/verif/evidence/{pid}.json",
                "replay_cmd_template": f"./check {pid} --replay {{path}}",
                "engine": "vlib",
                "level_claimed": {"category": level, "text": text, "design_ref": f"DESIGN.md section {ref}, {pid}"},
                "level_note": note + PROBES.get(pid, ""),
                "technique": tech,
            })
        else:
            na.append({"property_id": pid, "reason": "check not built yet in this round (design in DESIGN.md section 7); not claimed until its monitor exists"})
    m = {
        "version": 1,
        "setup_cmd": "./setup.sh",
        "hooks": {
            "guard": "EUDOXIA_VERIF",
            "enable": "no source hooks: all probes are attached at run time by the harness after importing eudoxia from /repo (VERIF_REPO); the guard name is reserved and unused by the source",
            "baseline_off_cmd": BASELINE,
            "source_commits": [],
            "add_only": True,
        },
        "engines": [{"name": "vlib", "path": "/verif/vlib", "serves_properties": [c["property_id"] for c in checks],
                     "kind_free_text": "runtime monitoring harness: generated workloads drive the real code; monitors compare observations with independent reference models"}],
        "checks": checks,
        "not_applicable": na,
        "notes": "All checks: exit 0 held / 1 VIOLATION / 2 INCONCLUSIVE. Honour VERIF_SEED, VERIF_TIER, VERIF_REPO. known_findings.json lists open findings (printed as KNOWN-FINDING) and fixed ones. Self-validation material: selftest/ (71 hand-made mutants), seeded/ (180 property-breaking changes by independent sub-agents in nine flavours a-i), benign/ (120 property-preserving changes p-u); DESIGN.md section 12 records first-contact results and every strengthening.",
    }
    with open(os.path.join(HERE, "MANIFEST.json"), "w") as f:
        json.dump(m, f, indent=1)
    print(f"{len(checks)} checks, {len(na)} not yet claimed")


if __name__ == "__main__":
    main()
