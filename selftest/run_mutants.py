#!/usr/bin/env python3
"""Self-validation: apply each mutant patch to a scratch copy of /repo (outside /repo and
/verif), run the named property checks against it with VERIF_REPO, and report which checks
fire.  The scratch copy is removed afterwards.

usage: run_mutants.py [--tier quick] [--tests] [--props C03,C10] [pattern ...]
Mutant files: selftest/mutants/<PROPS>-<name>.patch where <PROPS> is e.g. C03 or C03+C10
(the checks expected to catch it); seeded/<id>/patch.diff with meta.json {"property": ...}.
"""
import glob
import json
import os
import shutil
import subprocess
import sys
import tempfile

HERE = os.path.dirname(os.path.abspath(__file__))
VERIF = os.path.dirname(HERE)


def sh(cmd, **kw):
    return subprocess.run(cmd, shell=True, stdout=subprocess.PIPE, stderr=subprocess.STDOUT, text=True, **kw)


def main():
    args = sys.argv[1:]
    tier = "quick"
    run_tests = False
    only_props = None
    excl = []
    pats = []
    i = 0
    while i < len(args):
        if args[i] == "--tier":
            tier = args[i + 1]; i += 2
        elif args[i] == "--tests":
            run_tests = True; i += 1
        elif args[i] == "--props":
            only_props = args[i + 1].split(","); i += 2
        elif args[i] == "--exclude":
            excl = args[i + 1].split(","); i += 2
        else:
            pats.append(args[i]); i += 1
    muts = []
    for f in sorted(glob.glob(os.path.join(HERE, "mutants", "*.patch"))):
        name = os.path.basename(f)[:-6]
        props = name.split("-")[0].split("+")
        muts.append((name, f, props))
    for d in sorted(glob.glob(os.path.join(VERIF, "seeded", "*"))):
        pf = os.path.join(d, "patch.diff")
        mf = os.path.join(d, "meta.json")
        if os.path.exists(pf) and os.path.exists(mf):
            meta = json.load(open(mf))
            props = meta["property"] if isinstance(meta["property"], list) else [meta["property"]]
            muts.append(("seeded/" + os.path.basename(d), pf, props))
    if pats:
        muts = [m for m in muts if any(p in m[0] for p in pats)]
    if excl:
        muts = [m for m in muts if not any(m[0].endswith(x) for x in excl)]
    summary = []
    record = {}
    for name, patch, props in muts:
        tmp = tempfile.mkdtemp(prefix="eudoxia-mut-", dir="/tmp")
        try:
            sh(f"git -C /repo archive HEAD | tar -x -C {tmp}")
            r = sh(f"cd {tmp} && git init -q . && git apply {patch} 2>&1")
            applied = r.returncode == 0 and sh(f"cd {tmp} && diff -rq /repo/eudoxia {tmp}/eudoxia | grep -v __pycache__ | head -5").stdout.strip()
            if not applied:
                print(f"{name}: PATCH DID NOT APPLY\n{r.stdout[-400:]}")
                summary.append((name, "not-applied"))
                continue
            line = f"{name}:"
            if run_tests:
                t = sh(f"cd {tmp} && /venv/bin/python -m pytest -q -p no:cacheprovider -x -n 8 --timeout=900 2>&1 | tail -1")
                line += f" tests[{t.stdout.strip()[-40:]}]"
            caught = []
            for p in (only_props or props):
                env = dict(os.environ, VERIF_REPO=tmp, VERIF_NO_EVIDENCE="1")
                c = subprocess.run([os.path.join(VERIF, "check"), p, "--tier", tier], cwd=VERIF, env=env,
                                   stdout=subprocess.PIPE, stderr=subprocess.STDOUT, text=True)
                kinds = [l.strip()[:110] for l in c.stdout.splitlines() if l.startswith("  [")]
                line += f" {p}=exit{c.returncode}"
                record.setdefault(name, {})[p] = {"exit": c.returncode, "kinds": sorted({k.split("]")[0].strip("[ ") for k in kinds})}
                if c.returncode == 1:
                    caught.append(p)
                    line += f" {kinds[:2]}"
                elif c.returncode == 2:
                    line += " " + " ".join(l for l in c.stdout.splitlines() if l.startswith("INCONCLUSIVE"))[:200]
            print(line, flush=True)
            summary.append((name, "CAUGHT" if caught else "MISSED"))
        finally:
            shutil.rmtree(tmp, ignore_errors=True)
    print("\n".join(f"{s:8s} {n}" for n, s in summary))
    if os.environ.get("MUTANT_RESULTS"):
        old = {}
        if os.path.exists(os.environ["MUTANT_RESULTS"]):
            old = json.load(open(os.environ["MUTANT_RESULTS"]))
        old.update(record)
        json.dump(old, open(os.environ["MUTANT_RESULTS"], "w"), indent=1, sort_keys=True)
    return 0 if all(s == "CAUGHT" for _, s in summary) else 1


if __name__ == "__main__":
    sys.exit(main())
