#!/usr/bin/env python3
"""Generate selftest/mutants/*.patch from the table of (name, file, old, new) edits below.
Each edit is applied to the current /repo file text; the unified diff is stored."""
import difflib
import os
import sys

HERE = os.path.dirname(os.path.abspath(__file__))
REPO = "/repo"

M = []


def mut(name, path, old, new, count=1):
    M.append((name, path, old, new, count))


RP = "eudoxia/executor/resource_pool.py"
CT = "eudoxia/executor/container.py"
EX = "eudoxia/executor/executor.py"
RS = "eudoxia/workload/runtime_status.py"
DAG = "eudoxia/utils/dag.py"
SIM = "eudoxia/simulator.py"
PRI = "eudoxia/scheduler/priority.py"
PP = "eudoxia/scheduler/priority_pool.py"
NV = "eudoxia/scheduler/naive.py"
OB = "eudoxia/scheduler/overbook.py"
WL = "eudoxia/workload/workload.py"
CSV = "eudoxia/workload/csv_io.py"
TL = "eudoxia/tools.py"
REST = "eudoxia/scheduler/rest.py"
PL = "eudoxia/workload/pipeline.py"
ASG = "eudoxia/executor/assignment.py"

# ---- C01
mut("C01-drop-dependency-clause", RS, "if self.operator_states[parent] != OperatorState.COMPLETED:", "if False:")
mut("C01-dagiter-any-parent", DAG, "all(parent.id in self.returned for parent in child.parents)", "any(parent.id in self.returned for parent in child.parents)")
mut("C01-dep-check-accepts-running-parent", RS, "if self.operator_states[parent] != OperatorState.COMPLETED:", "if self.operator_states[parent] not in (OperatorState.COMPLETED, OperatorState.RUNNING):")
# ---- C02
mut("C02-extra-edge-completed-assigned", RS, "    OperatorState.COMPLETED: [],", "    OperatorState.COMPLETED: [OperatorState.ASSIGNED],")
mut("C02-mutate-before-assert", RS, """        can_transition, error = self.check_transition(operator, new_state)
        assert can_transition, error
        old_state = self.operator_states[operator]
        self.state_counts[old_state] -= 1
        self.state_counts[new_state] += 1
""", """        can_transition, error = self.check_transition(operator, new_state)
        old_state = self.operator_states[operator]
        self.state_counts[old_state] -= 1
        self.state_counts[new_state] += 1
        assert can_transition, error
""")
mut("C02-kill-fails-all-operators", CT, "        for op in self.operators[self._current_op_idx:]:\n            op.transition(OperatorState.FAILED)", "        for op in self.operators:\n            if op.state() != OperatorState.COMPLETED or True:\n                op.pipeline.runtime_status().operator_states[op] = OperatorState.FAILED")
mut("C02-running-to-pending-edge", RS, "        OperatorState.COMPLETED,\n        OperatorState.FAILED,\n    ],", "        OperatorState.COMPLETED,\n        OperatorState.FAILED,\n        OperatorState.PENDING,\n    ],")
# ---- C03
mut("C03-cpu-not-returned-after-suspension", RP, "                self.avail_cpu_pool += c.assignment.cpu\n                self.avail_ram_pool += c.assignment.ram\n                to_remove.append(c)\n        for c in to_remove:\n            self.suspending_containers.remove(c)", "                self.avail_ram_pool += c.assignment.ram\n                to_remove.append(c)\n        for c in to_remove:\n            self.suspending_containers.remove(c)")
mut("C03-per-assignment-admission", RP, """        for a in assignments:
            cpu_to_be_alloc += a.cpu
            ram_to_be_alloc += a.ram
""", """        for a in assignments:
            cpu_to_be_alloc = max(cpu_to_be_alloc, a.cpu)
            ram_to_be_alloc = max(ram_to_be_alloc, a.ram)
""")
mut("C03-double-free-on-kill", CT, "        self._mark_completed(error=error)", "        self._mark_completed(error=error)\n        self.pool.avail_ram_pool += self.assignment.ram if self._ticks_elapsed > 40 else 0")
mut("C03-ram-admission-off-by-margin", RP, 'assert ram_to_be_alloc <= self.avail_ram_pool, "Overallocated RAM in assignment"', 'assert ram_to_be_alloc <= self.avail_ram_pool * 1.05, "Overallocated RAM in assignment"')
# ---- C04
mut("C04-drop-reconcile-on-suspend", RP, "            # consumption only counts active containers\n            self._reconcile_consumed_ram()\n", "")
mut("C04-oom-test-ge", RP, "            if c.get_current_memory_usage() > c.assignment.ram:\n                c.kill(\"OOM\")", "            if c.get_current_memory_usage() >= c.assignment.ram:\n                c.kill(\"OOM\")")
# (dropping the reconcile on exit is an equivalent mutant: the delta updates stay exact within 1e-6 GB)
mut("C04-pool-limit-at-90-percent", RP, "self.consumed_ram_gb <= self.max_ram_pool:", "self.consumed_ram_gb <= self.max_ram_pool * 0.9:", count=2)
# ---- C05
mut("C05-round-instead-of-int", CT, "                seg_ticks.append((int(io_secs / self.tick_length_secs),\n                                  int(cpu_secs / self.tick_length_secs)))", "                seg_ticks.append((int(io_secs / self.tick_length_secs),\n                                  round(cpu_secs / self.tick_length_secs)))")
mut("C05-growth-rate-off", CT, "self.set_current_memory_usage(io_progress_secs * DISK_SCAN_GB_SEC)", "self.set_current_memory_usage(i * self.tick_length_secs * DISK_SCAN_GB_SEC)")
mut("C05-linear7-bound-6", PL, "        if num_cpus < 7:\n            return baseline_cpu_seconds / num_cpus", "        if num_cpus < 6:\n            return baseline_cpu_seconds / num_cpus")
mut("C05-kill-one-tick-late", CT, "                    while self._current_memory > self.assignment.ram:\n                        yield", "                    while self._current_memory > self.assignment.ram * 1.0 and i > 0:\n                        yield")
mut("C05-exp-bound", PL, "        if num_cpus < 4:\n            scaling_factor = np.power(2, num_cpus)", "        if num_cpus < 3:\n            scaling_factor = np.power(2, num_cpus)")
# ---- C06
mut("C06-latency-off-by-one", RS, "        return self.finish_tick - self.arrival_tick", "        return self.finish_tick - self.arrival_tick + 1")
mut("C06-completions-count-failures", RP, "                if c.error is None:\n                    self.num_completed += 1", "                if True:\n                    self.num_completed += 1")
mut("C06-p99-wrong-class", SIM, "        pipeline_latencies_by_priority[Priority.INTERACTIVE],\n        ticks_per_second)", "        pipeline_latencies_by_priority[Priority.BATCH_PIPELINE],\n        ticks_per_second)")
mut("C06-sweep-only-on-success", SIM, "        if executor_results:\n            for pipeline_id in list(outstanding_pipelines.keys()):", "        if executor_results and len(executor_results) < 3:\n            for pipeline_id in list(outstanding_pipelines.keys()):")
mut("C06-throughput-per-tick", SIM, "    throughput = executor.num_completed() / params['duration']", "    throughput = executor.num_completed() / max(1, max_ticks) * params['ticks_per_second'] if max_ticks % 7 else executor.num_completed() / (params['duration'] + 1)")
# ---- C07
mut("C07-set-iteration-in-scheduler", PRI, "        for pipeline in pipelines_to_process.values():\n            # identify any ops", "        for pipeline in set(pipelines_to_process.values()):\n            # identify any ops")
mut("C07-unseeded-draw", WL, "            next_wait = int(self.rng.normal(self.waiting_ticks_mean,\n                                             self.waiting_ticks_stdev))", "            next_wait = int(np.random.normal(self.waiting_ticks_mean,\n                                             self.waiting_ticks_stdev))")
mut("C07-workload-depends-on-num-pools", WL, "        self.rng = np.random.default_rng(random_seed)", "        self.rng = np.random.default_rng(random_seed + (kwargs.get('num_pools', 0) > 5))")
mut("C07-global-container-counter-in-decision", PRI, "                job_cpu = max(1, int(pool_stats[pool_id][\"total_cpu\"] / 10))\n                job_ram = max(1, int(pool_stats[pool_id][\"total_ram\"] / 10))\n                if job_cpu >= pool_stats[pool_id][\"avail_cpu\"]", "                from eudoxia.executor.container import Container as _C\n                job_cpu = max(1, int(pool_stats[pool_id][\"total_cpu\"] / 10)) + (1 if _C.next_container_num > 400 else 0)\n                job_ram = max(1, int(pool_stats[pool_id][\"total_ram\"] / 10))\n                if job_cpu >= pool_stats[pool_id][\"avail_cpu\"]")
# ---- C08
mut("C08-resume-branch-forgets-decrement", PRI, "                pool_stats[pool_id][\"avail_cpu\"] -= job_cpu\n                pool_stats[pool_id][\"avail_ram\"] -= job_ram\n                to_start.append(asgmnt)\n            # The case for newly arrived jobs", "                to_start.append(asgmnt)\n            # The case for newly arrived jobs")
mut("C08-stats-crash-on-empty-class", SIM, "    if latencies:\n        mean_latency_seconds", "    if latencies or arrival_count == 0:\n        mean_latency_seconds")
# ---- C09
mut("C09-result-dropped-on-same-tick-kill", RP, "                logger.info(result)\n                results.append(result)", "                logger.info(result)\n                if not (c.error is not None and len(results) >= 2):\n                    results.append(result)")
mut("C09-unknown-pool-check-dropped", EX, "            assert command.pool_id in range(self.num_pools), \\\n                f\"unknown pool_id {command.pool_id!r} (have {self.num_pools} pools)\"", "            pass")
mut("C09-result-emitted-twice", RP, "                logger.info(result)\n                results.append(result)", "                logger.info(result)\n                results.append(result)\n                if c.error is None and c.ticks_elapsed() == 7:\n                    results.append(result)")
# ---- C10
mut("C10-can-suspend-left-true", CT, "                    self._can_suspend = False\n                    if seg_idx == last_seg_idx", "                    if seg_idx == last_seg_idx")
mut("C10-ceil-suspension-ticks", CT, "        write_to_disk_ticks = max(1, int(write_to_disk_secs / self.tick_length_secs))", "        import math\n        write_to_disk_ticks = max(1, math.ceil(write_to_disk_secs / self.tick_length_secs))")
mut("C10-free-at-suspension-start", RP, "                container.suspend_container()\n                self.suspending_containers.append(container)", "                container.suspend_container()\n                self.avail_cpu_pool += container.assignment.cpu\n                container.assignment.cpu = 0\n                self.suspending_containers.append(container)")
mut("C10-suspension-one-tick-longer", CT, "        self._suspend_ticks_left -= 1\n        if self._suspend_ticks_left == 0:", "        self._suspend_ticks_left -= 1\n        if self._suspend_ticks_left == 0 and self.suspend_ticks > 3:\n            self._suspend_ticks_left = 1\n            self.suspend_ticks = 3\n        elif self._suspend_ticks_left == 0:")
mut("C10-suspend-allowed-on-last-op", CT, "                        if op_idx == len(self.operators) - 1:\n                            self._mark_completed()\n                        else:\n                            self._can_suspend = True", "                        if op_idx == len(self.operators) - 1:\n                            self._mark_completed()\n                        else:\n                            self._can_suspend = True\n                    elif i == total_seg_ticks - 1 and seg_idx < last_seg_idx:\n                        self._can_suspend = True")
# ---- C11
mut("C11-ascending-sort", RP, "scored.sort(key=lambda x: x[0], reverse=True)", "scored.sort(key=lambda x: x[0])")
mut("C11-usage-only-score", RP, "            score = consumption_gb * consumption_percent", "            score = consumption_gb")
mut("C11-kill-all", RP, "            if self.consumed_ram_gb <= self.max_ram_pool:\n                break\n            victim.kill(\"OOM\")", "            victim.kill(\"OOM\")")
mut("C11-stop-one-early", RP, "            if self.consumed_ram_gb <= self.max_ram_pool:\n                break\n            victim.kill(\"OOM\")", "            if self.consumed_ram_gb <= self.max_ram_pool * 1.1:\n                break\n            victim.kill(\"OOM\")")
# ---- C12
mut("C12-queue-order-swapped", PRI, "    queues = [s.qry_jobs, s.interactive_jobs, s.batch_ppln_jobs]", "    queues = [s.interactive_jobs, s.qry_jobs, s.batch_ppln_jobs]")
mut("C12-query-containers-suspendable", PRI, "                while container.priority == Priority.QUERY:", "                while container.priority == Priority.BATCH_PIPELINE and False:")
mut("C12-drop-one-tick-fix", PRI, "            s.suspending[sus.container_id] = WaitingQueueJob(priority=sus.priority, p=ops[0].pipeline,\n                                                             ops=ops, retry_stats=retry_stats)", "            pass")
mut("C12-lifo-queue", PRI, "            s.queues_by_prio[job.pipeline.priority].append(job)", "            s.queues_by_prio[job.pipeline.priority].insert(0, job)")
mut("C12-suspend-twice-as-many", PRI, "        num_to_suspend = len(s.qry_jobs)", "        num_to_suspend = 2 * len(s.qry_jobs) + 1")
# ---- C13
mut("C13-lt-instead-of-le", WL, "self.get_next_batch_tick() <= self.current_tick:", "self.get_next_batch_tick() < self.current_tick:")
mut("C13-floor-tick", WL, "        return arrival_seconds / self.tick_length_secs", "        return int(arrival_seconds / self.tick_length_secs)")
# ---- C14
mut("C14-parents-written-sorted-wrong", CSV, "            parents_str = ';'.join(parent_ids)", "            parents_str = ';'.join(parent_ids[:2])")
mut("C14-memory-zero-written-blank", CSV, "            'memory_gb': row.memory_gb if row.memory_gb is not None else '',", "            'memory_gb': row.memory_gb if row.memory_gb else '',")
mut("C14-later-row-priority-accepted", CSV, "                if row.priority:\n                    raise ValueError", "                if row.priority and False:\n                    raise ValueError")
# ---- C15
mut("C15-one-pipeline-less", WL, "        for _ in range(self.num_pipelines):", "        for _ in range(max(1, self.num_pipelines - (self.pipeline_counter > 40))):")
mut("C15-revert-prev-op-fix", WL, "                        if prev_op is None:", "                        if True:")
mut("C15-query-gets-two-ops", WL, "                op = p.new_operator()\n                seg = self.generate_query_segment()\n                op.add_segment(seg)\n", "                op = p.new_operator()\n                seg = self.generate_query_segment()\n                op.add_segment(seg)\n                if self.pipeline_counter % 97 == 0:\n                    p.new_operator([op]).add_segment(self.generate_query_segment())\n")
# ---- C16
mut("C16-batch-retries-to-pool0", PP, "        elif f.priority == Priority.BATCH_PIPELINE:\n            s.batch_ppln_jobs.append(job)", "        elif f.priority == Priority.BATCH_PIPELINE:\n            s.interactive_jobs.append(job)")
mut("C16-cutoff-gt", PP, "                    if cpu_ratio >= 0.5 or ram_ratio >= 0.5:", "                    if cpu_ratio > 0.5 or ram_ratio > 0.5:")
mut("C16-retry-all-ops", PP, "        ops = [op for op in f.ops if op.state() != OperatorState.COMPLETED]\n        assert ops, \"failed container has no incomplete operators\"", "        ops = [op for op in f.ops if op.state() != OperatorState.COMPLETED]\n        assert ops, \"failed container has no incomplete operators\"\n        ops = ops[:1] if len(ops) > 2 else ops")
# ---- C17
mut("C17-half-pool", NV, "            assignment = Assignment(ops=op_list, cpu=avail_cpu_pool, ram=avail_ram_pool,", "            assignment = Assignment(ops=op_list, cpu=max(1, avail_cpu_pool // 2) if avail_cpu_pool > 8 else avail_cpu_pool, ram=avail_ram_pool,")
mut("C17-retry-failed", NV, "            if pipeline.runtime_status().is_pipeline_successful() or has_failures:", "            if pipeline.runtime_status().is_pipeline_successful():")
# ---- C18
mut("C18-ram-free-instead-of-capacity", OB, "                ram=pool.max_ram_pool,", "                ram=max(pool.avail_ram_pool, 1),")
mut("C18-max-failures-off-by-one", OB, "        if s.pipeline_failures[op.pipeline.pipeline_id] >= MAX_FAILURES:", "        if s.pipeline_failures[op.pipeline.pipeline_id] > MAX_FAILURES:")
mut("C18-queue-truncation-drops-work", OB, "            s.op_queue = s.op_queue[op_idx:]", "            s.op_queue = s.op_queue[op_idx + 1:]")
# ---- C19
mut("C19-payload-after-merge", REST, "    # Serialize payload\n    t0 = time.perf_counter()", "    for p in pipelines:\n        s.other_pipelines[p.pipeline_id] = p\n    # Serialize payload\n    t0 = time.perf_counter()")
mut("C19-completed-never-dropped", REST, "            del s.other_pipelines[pipeline_id]", "            pass")
mut("C19-leak-segment-needs", PL, '            "parents_complete": parents_complete,\n        }', '            "parents_complete": parents_complete,\n            "peak_memory_gb": max((sg.get_peak_memory_gb() for sg in self.values), default=0),\n        }')
mut("C19-poll-interval-ignored", REST, "    if not pipelines and not results and time_since_last < s.rest_poll_interval:", "    if not pipelines and not results and time_since_last < s.rest_poll_interval / 2:")
# ---- C20
mut("C20-snap-round", TL, "                tick = math.floor(ticks)\n", "                tick = round(ticks)\n")
mut("C20-jitter-no-sort", TL, "    pipelines.sort(key=lambda x: x[0])", "    pass")
mut("C20-revert-seed-key", TL, "params_with_seed['random_seed'] = task.seed", "params_with_seed['seed'] = task.seed")
mut("C20-jitter-negative", TL, "                jitter = rng.uniform(0, delta)", "                jitter = rng.uniform(-delta / 2, delta)")


def main():
    outdir = os.path.join(HERE, "mutants")
    os.makedirs(outdir, exist_ok=True)
    bad = 0
    for name, path, old, new, count in M:
        src = open(os.path.join(REPO, path)).read()
        if src.count(old) != count:
            print(f"!! {name}: pattern occurs {src.count(old)} times in {path}")
            bad += 1
            continue
        dst = src.replace(old, new)
        diff = difflib.unified_diff(src.splitlines(True), dst.splitlines(True), "a/" + path, "b/" + path)
        with open(os.path.join(outdir, name + ".patch"), "w") as f:
            f.writelines(diff)
    print(f"{len(M) - bad} mutants written, {bad} failed")
    return 1 if bad else 0


if __name__ == "__main__":
    sys.exit(main())
