#!/usr/bin/env python3
"""False-alarm check: apply each benign variant (benign/<prop>-<v>/patch.diff - changes that keep
the property true) to a scratch copy of /repo and run the property's check against it.
Expected: exit 0 for every variant.  usage: run_benign.py [--tier quick] [--all-props] [pattern ...]"""
import glob
import json
import os
import shutil
import subprocess
import sys
import tempfile

HERE = os.path.dirname(os.path.abspath(__file__))
VERIF = os.path.dirname(HERE)
ALL = [f"C{i:02d}" for i in range(1, 21)]


def sh(cmd):
    return subprocess.run(cmd, shell=True, stdout=subprocess.PIPE, stderr=subprocess.STDOUT, text=True)


def main():
    args = sys.argv[1:]
    tier = "quick"
    allp = False
    pats = []
    i = 0
    while i < len(args):
        if args[i] == "--tier":
            tier = args[i + 1]; i += 2
        elif args[i] == "--all-props":
            allp = True; i += 1
        else:
            pats.append(args[i]); i += 1
    rows = []
    for d in sorted(glob.glob(os.path.join(VERIF, "benign", "*"))):
        name = os.path.basename(d)
        if pats and not any(p in name for p in pats):
            continue
        patch = os.path.join(d, "patch.diff")
        meta = json.load(open(os.path.join(d, "meta.json")))
        tmp = tempfile.mkdtemp(prefix="eudoxia-benign-", dir="/tmp")
        try:
            sh(f"git -C /repo archive HEAD | tar -x -C {tmp}")
            r = sh(f"cd {tmp} && git init -q . && git apply {patch} 2>&1")
            if r.returncode != 0:
                print(f"{name}: PATCH DID NOT APPLY {r.stdout[-200:]}")
                rows.append((name, "not-applied"))
                continue
            line = f"{name}:"
            verdict = "OK"
            for p in (ALL if allp else [meta["property"]]):
                env = dict(os.environ, VERIF_REPO=tmp, VERIF_NO_EVIDENCE="1")
                c = subprocess.run([os.path.join(VERIF, "check"), p, "--tier", tier], cwd=VERIF, env=env,
                                   stdout=subprocess.PIPE, stderr=subprocess.STDOUT, text=True)
                line += f" {p}=exit{c.returncode}"
                if c.returncode == 1:
                    verdict = "ALARM" if p == meta["property"] else (verdict if verdict == "ALARM" else "other-property-alarm")
                    line += " " + str([l.strip()[:140] for l in c.stdout.splitlines() if l.startswith("  [")][:2])
                elif c.returncode == 2 and verdict == "OK":
                    verdict = "INCONCLUSIVE"
                    line += " " + " ".join(l for l in c.stdout.splitlines() if l.startswith("INCONCLUSIVE"))[:300]
            print(line, flush=True)
            rows.append((name, verdict))
        finally:
            shutil.rmtree(tmp, ignore_errors=True)
    print("\n".join(f"{v:14s} {n}" for n, v in rows))
    return 0 if all(v == "OK" for _, v in rows) else 1


if __name__ == "__main__":
    sys.exit(main())
