#!/bin/sh
# Nothing is installed or built: the checks import eudoxia fresh from /repo in every worker.
# This self-check verifies the interpreter, the import and the probe points.
HERE="$(cd "$(dirname "$0")" && pwd)"
cd "$HERE" || exit 1
mkdir -p evidence replays
PYTHONPATH="$HERE" PYTHONDONTWRITEBYTECODE=1 /venv/bin/python - <<'PY'
import sys
from vlib import env
env.setup()
import eudoxia
from eudoxia.workload.runtime_status import PipelineRuntimeStatus
from eudoxia.executor import Executor
from eudoxia.scheduler.decorators import INIT_ALGOS, SCHEDULING_ALGOS
assert hasattr(PipelineRuntimeStatus, "transition")
assert hasattr(Executor, "run_one_tick")
for k in ("naive", "priority", "priority-pool", "overbook", "rest"):
    assert k in INIT_ALGOS and k in SCHEDULING_ALGOS, k
assert hasattr(sys, "monitoring")
print("setup ok: eudoxia from", eudoxia.__file__)
PY
